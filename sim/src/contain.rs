//! Containment: the batch runs in a child process (address-space limit, watchdog) so that a run
//! which aborts the process (failed allocation, stack overflow, abort()) or never returns can be
//! isolated to a single seed, written as a replay file and reported as a violation instead of
//! taking the check down. Everything stays deterministic: isolation re-executes seed ranges.

use crate::batch::{self, RunCfg, Stage, StageKind};
use crate::gen::Restrict;
use crate::plan::{Expect, Plan};
use crate::prng::run_seed;
use crate::sweep;
use std::os::unix::process::{CommandExt, ExitStatusExt};
use std::process::{Command, Stdio};
use std::time::{Duration, Instant};

pub const AS_LIMIT_BYTES: u64 = 12 << 30;
/// a single simulated run takes microseconds; a worker stuck on one index this long is hung
pub const HANG_SECS: u64 = 45;

#[derive(Debug, Clone, Copy, PartialEq, Eq)]
pub enum Died {
    Exit(i32),
    Signal(i32),
    Timeout,
}

pub fn spawn_wait(args: &[String], timeout: Duration, quiet: bool) -> Died {
    let exe = std::env::current_exe().expect("current_exe");
    let mut cmd = Command::new(exe);
    cmd.args(args);
    if quiet {
        cmd.stdout(Stdio::null()).stderr(Stdio::null());
    }
    unsafe {
        cmd.pre_exec(|| {
            let lim = libc::rlimit { rlim_cur: AS_LIMIT_BYTES, rlim_max: AS_LIMIT_BYTES };
            libc::setrlimit(libc::RLIMIT_AS, &lim);
            let core = libc::rlimit { rlim_cur: 0, rlim_max: 0 };
            libc::setrlimit(libc::RLIMIT_CORE, &core);
            Ok(())
        });
    }
    let mut child = match cmd.spawn() {
        Ok(c) => c,
        Err(e) => {
            eprintln!("HARNESS-ERROR: cannot spawn worker process: {e}");
            return Died::Exit(2);
        }
    };
    let t0 = Instant::now();
    loop {
        match child.try_wait() {
            Ok(Some(st)) => {
                return match (st.code(), st.signal()) {
                    (Some(c), _) => Died::Exit(c),
                    (None, Some(s)) => Died::Signal(s),
                    _ => Died::Exit(2),
                }
            }
            Ok(None) => {
                if t0.elapsed() > timeout {
                    let _ = child.kill();
                    let _ = child.wait();
                    return Died::Timeout;
                }
                std::thread::sleep(Duration::from_millis(20));
            }
            Err(_) => return Died::Exit(2),
        }
    }
}

fn base_args(cfg: &RunCfg) -> Vec<String> {
    let mut a = vec![
        "--property".into(),
        cfg.property.clone(),
        "--tier".into(),
        cfg.tier.clone(),
        "--seed".into(),
        cfg.seed.to_string(),
        "--scale".into(),
        cfg.scale.to_string(),
        "--jobs".into(),
        cfg.jobs.to_string(),
        "--replays".into(),
        cfg.replays.clone(),
        "--profile".into(),
        cfg.profile.clone(),
    ];
    if let Some(k) = &cfg.known {
        a.extend(["--known".into(), k.clone()]);
    }
    if let Some(c) = &cfg.codec {
        a.extend(["--codec".into(), c.clone()]);
    }
    if let Some(b) = cfg.bits {
        a.extend(["--bits".into(), b.to_string()]);
    }
    if !cfg.build_label.is_empty() {
        a.extend(["--build-label".into(), cfg.build_label.clone()]);
    }
    if !cfg.skip.is_empty() {
        a.extend(["--skip".into(), cfg.skip.iter().map(|(s, i)| format!("{s}:{i}")).collect::<Vec<_>>().join(",")]);
    }
    if let Some(s) = cfg.only_stage {
        a.extend(["--only-stage".into(), s.to_string()]);
    }
    if !cfg.skip_ops.is_empty() {
        a.extend(["--skip-ops".into(), cfg.skip_ops.iter().map(u64::to_string).collect::<Vec<_>>().join(",")]);
    }
    a
}

type FatalRun = (Stage, u64, Option<usize>, &'static str, String);

/// Is a run that kills or hangs the process a violation of THIS property? Totality of decoders and
/// parsers is C17's statement; C16's stages only ever feed valid input, so a fatal run there breaks
/// the round trip; for C04 only a generator that never returns counts (no value is obtained) — a
/// decoder hang met while C04 observes decoder outputs is skipped, not reported.
fn fatal_relevant(property: &str, stage: &Stage) -> bool {
    property != "C04" || stage.kind == StageKind::Entropy
}

fn run_once(cfg: &RunCfg) -> Result<u8, FatalRun> {
    let hang_file = format!("{}/.hang-{}-{}", cfg.replays, cfg.property, std::process::id());
    let _ = std::fs::create_dir_all(&cfg.replays);
    let _ = std::fs::remove_file(&hang_file);
    let mut args = vec!["run".to_string(), "--inproc".into(), "--hang-file".into(), hang_file.clone()];
    args.extend(base_args(cfg));
    if let Some(e) = &cfg.evidence {
        args.extend(["--evidence".into(), e.clone()]);
    }
    let timeout = Duration::from_secs(if cfg.tier == "thorough" { 6 * 3600 } else { 3600 });
    let died = spawn_wait(&args, timeout, false);
    let hang = std::fs::read_to_string(&hang_file).ok();
    let _ = std::fs::remove_file(&hang_file);
    match died {
        Died::Exit(3) if hang.is_some() => {
            // the in-process watchdog named the stuck run
            let h = hang.unwrap();
            let mut it = h.split_whitespace().filter_map(|x| x.parse::<u64>().ok());
            let (Some(arm_id), Some(index), point) = (it.next(), it.next(), it.next()) else {
                println!("HARNESS-ERROR: malformed hang file");
                return Ok(2);
            };
            let Some(stage) = batch::stages(&cfg.property, &cfg.tier, cfg.scale).into_iter().find(|s| s.arm_id == arm_id) else { return Ok(2) };
            let point = if stage.kind == StageKind::Sweep { point.map(|p| p as usize) } else { None };
            Err((stage, index, point, "HANG", format!("a single simulated run did not finish within {HANG_SECS} s")))
        }
        Died::Exit(c) => Ok(c.clamp(0, 255) as u8),
        Died::Signal(sig) => {
            println!("simctl: worker process died with signal {sig}; isolating the run by re-executing seed ranges");
            match isolate(cfg, sig) {
                Some(f) => Err(f),
                None => {
                    println!("HARNESS-ERROR: the worker process died with signal {sig} but no seed range reproduces it");
                    Ok(2)
                }
            }
        }
        Died::Timeout => {
            println!("HARNESS-ERROR: worker process exceeded the overall time limit");
            Ok(2)
        }
    }
}

pub fn supervise_run(cfg: &RunCfg) -> u8 {
    let mut cfg = cfg.clone();
    for _ in 0..24 {
        match run_once(&cfg) {
            Ok(code) => return code,
            Err((stage, index, point, class, detail)) => {
                if fatal_relevant(&cfg.property, &stage) {
                    return report(&cfg, &stage, index, point, class, detail);
                }
                if stage.kind == StageKind::History {
                    // an operation that takes the process down says nothing about canonical values, and
                    // it would do so in thousands of histories: exclude the operation KIND and judge the rest
                    if let Some(op) = fatal_op(&cfg, &stage, index) {
                        println!(
                            "NOTE: history operation kind {op} ({}) takes the process down ({class}) in run {index}; that is outside {}'s statement. The kind is excluded from the histories and the batch re-run",
                            crate::history::op_name(op),
                            cfg.property
                        );
                        cfg.skip_ops.push(op);
                        crate::history::set_skip_ops(&cfg.skip_ops);
                        continue;
                    }
                }
                if cfg.skip.len() >= 5 {
                    break;
                }
                println!("simctl: run {index} of stage '{}' is fatal ({class}) but that is outside {}'s statement (it is C17's); skipping it and re-running", stage.name, cfg.property);
                cfg.skip.push((stage.arm_id, index));
            }
        }
    }
    println!("HARNESS-ERROR: too many fatal runs outside this property's scope");
    2
}

/// Which operation of a fatal history takes the process down: replay growing prefixes of the plan in
/// fresh processes; the last operation of the shortest fatal prefix is the one.
fn fatal_op(cfg: &RunCfg, stage: &Stage, index: u64) -> Option<u64> {
    let mut plan = plan_at(cfg, stage, index, None);
    plan.property = cfg.property.clone();
    let steps = plan.aux.len() / 4;
    let path = format!("{}/.fatal-op-{}-{}.json", cfg.replays, cfg.property, std::process::id());
    let mut found = None;
    for j in 1..=steps {
        let mut p = plan.clone();
        p.aux.truncate(4 * j);
        if std::fs::write(&path, serde_json::to_string(&p).unwrap()).is_err() {
            break;
        }
        let r = spawn_wait(&["replay".into(), path.clone(), "--inproc".into(), "--quiet".into()], Duration::from_secs(HANG_SECS + 10), true);
        if matches!(r, Died::Signal(_) | Died::Timeout) {
            found = Some(p.aux[4 * (j - 1)] % crate::history::NOPS);
            break;
        }
    }
    let _ = std::fs::remove_file(&path);
    found
}

fn probe(cfg: &RunCfg, stage: &Stage, from: u64, to: u64, points: Option<(u64, usize, usize)>) -> Died {
    let mut args = vec!["probe".to_string(), "--stage".into(), stage.arm_id.to_string(), "--from".into(), from.to_string(), "--to".into(), to.to_string()];
    if let Some((rec, a, b)) = points {
        args.extend(["--record".into(), rec.to_string(), "--point-from".into(), a.to_string(), "--point-to".into(), b.to_string()]);
    }
    args.extend(base_args(cfg));
    let n = to.saturating_sub(from).max(1);
    spawn_wait(&args, Duration::from_secs(60 + n / 2000), true)
}

fn isolate(cfg: &RunCfg, sig: i32) -> Option<FatalRun> {
    for stage in batch::stages(&cfg.property, &cfg.tier, cfg.scale) {
        if probe(cfg, &stage, 0, stage.runs, None) == Died::Exit(0) {
            continue;
        }
        let (mut lo, mut hi) = (0u64, stage.runs);
        while hi - lo > 1 {
            let mid = lo + (hi - lo) / 2;
            if probe(cfg, &stage, lo, mid, None) == Died::Exit(0) {
                lo = mid;
            } else {
                hi = mid;
            }
        }
        let mut point = None;
        if stage.kind == StageKind::Sweep {
            let restrict = Restrict { codec: cfg.codec.as_deref(), bits: cfg.bits };
            let n = sweep::sweep_plans(run_seed(cfg.seed, stage.arm_id, lo), &restrict).plans.len();
            let (mut a, mut b) = (0usize, n);
            while b - a > 1 {
                let m = a + (b - a) / 2;
                if probe(cfg, &stage, lo, lo + 1, Some((lo, a, m))) == Died::Exit(0) {
                    a = m;
                } else {
                    b = m;
                }
            }
            point = Some(a);
        }
        return Some((stage, lo, point, "ABORT", format!("the process was killed by signal {sig} (abort / failed allocation / stack overflow) during this run")));
    }
    None
}

pub fn plan_at(cfg: &RunCfg, stage: &Stage, index: u64, point: Option<usize>) -> Plan {
    let restrict = Restrict { codec: cfg.codec.as_deref(), bits: cfg.bits };
    let seed = run_seed(cfg.seed, stage.arm_id, index);
    match stage.kind {
        StageKind::Sweep => {
            let set = sweep::sweep_plans(seed, &restrict);
            set.plans[point.unwrap_or(0).min(set.plans.len() - 1)].clone()
        }
        StageKind::SmallValues => crate::gen::small_value_plan(index).expect("index in range"),
        StageKind::ShortInputs(n) => crate::gen::short_input_plan(index, n).expect("index in range"),
        _ => batch::plan_for(stage, seed, &restrict),
    }
}

fn report(cfg: &RunCfg, stage: &Stage, index: u64, point: Option<usize>, class: &str, detail: String) -> u8 {
    let mut plan = plan_at(cfg, stage, index, point);
    plan.property = cfg.property.clone();
    plan.expect = Some(Expect { class: class.into(), detail: detail.clone() });
    let mut h = crate::prng::Digest::default();
    h.str(&serde_json::to_string(&plan).unwrap());
    let build = if cfg.build_label.is_empty() { String::new() } else { format!("{}-", cfg.build_label) };
    let path = format!("{}/{}-{}{}-{:08x}.json", cfg.replays, cfg.property, build, class, h.finish() as u32);
    if std::fs::write(&path, serde_json::to_string_pretty(&plan).unwrap()).is_err() {
        println!("HARNESS-ERROR: cannot write {path}");
        return 2;
    }
    // the explicit trace must reproduce the death in a fresh process
    let r = spawn_wait(&["replay".into(), path.clone(), "--inproc".into(), "--quiet".into()], Duration::from_secs(HANG_SECS + 10), true);
    let reproduced = match (class, r) {
        ("ABORT", Died::Signal(_)) | ("HANG", Died::Timeout) => true,
        _ => false,
    };
    if !reproduced {
        println!("HARNESS-ERROR: {class} at stage '{}' index {index} does not reproduce from its replay file ({r:?})", stage.name);
        return 2;
    }
    // evidence: what was explored before the fatal run
    if let Some(ev) = &cfg.evidence {
        let mut args = vec!["run".to_string(), "--inproc".into(), "--stop-stage".into(), stage.arm_id.to_string(), "--stop-index".into(), index.to_string(), "--evidence".into(), ev.clone()];
        args.extend(base_args(cfg));
        let _ = spawn_wait(&args, Duration::from_secs(3600), true);
        if let Ok(text) = std::fs::read_to_string(ev) {
            if let Ok(mut v) = serde_json::from_str::<serde_json::Value>(&text) {
                v["violations"] = serde_json::json!(v["violations"].as_i64().unwrap_or(0) + 1);
                v["coverage"]["fatal_run"] = serde_json::json!({"class": class, "stage": stage.name, "index": index, "point": point, "detail": detail, "replay": path, "note": "counts cover the runs before the fatal one"});
                let _ = std::fs::write(ev, serde_json::to_string_pretty(&v).unwrap());
            }
        }
    }
    println!("VIOLATION property={} replay={}", cfg.property, path);
    println!("    class={class} arm={} codec={} bits={} stage='{}' run-index={index} seed={}", plan.arm, plan.codec, plan.bits, stage.name, plan.seed);
    println!("    {detail}");
    1
}

pub fn supervise_replay(path: &str, trace: bool) -> u8 {
    let mut args = vec!["replay".to_string(), path.to_string(), "--inproc".into()];
    if trace {
        args.push("--trace".into());
    }
    if std::env::args().any(|a| a == "--quiet") {
        args.push("--quiet".into());
    }
    let expect_class = std::fs::read_to_string(path)
        .ok()
        .and_then(|t| serde_json::from_str::<Plan>(&t).ok())
        .and_then(|p| p.expect.map(|e| e.class))
        .unwrap_or_default();
    match spawn_wait(&args, Duration::from_secs(HANG_SECS + 10), false) {
        Died::Exit(c) => c.clamp(0, 255) as u8,
        Died::Signal(s) if expect_class == "ABORT" => {
            println!("REPRODUCED class=ABORT: the replay process was killed by signal {s}");
            1
        }
        Died::Timeout if expect_class == "HANG" => {
            println!("REPRODUCED class=HANG: the replayed run did not finish within {} s", HANG_SECS + 10);
            1
        }
        other => {
            println!("replay process ended unexpectedly: {other:?}");
            2
        }
    }
}
