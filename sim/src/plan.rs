//! The explicit trace of one simulated run. `gen` derives a `Plan` from a seed; `engine`
//! executes a `Plan`; a replay file *is* a `Plan` (plus the expected violation), so replay does
//! not depend on the generator staying unchanged, and minimisation works on the `Plan`.

use serde::{Deserialize, Serialize};

mod hexbytes {
    use serde::{Deserialize, Deserializer, Serializer};
    pub fn serialize<S: Serializer>(v: &Vec<u8>, s: S) -> Result<S::Ok, S::Error> {
        s.serialize_str(&crate::num::hex(v))
    }
    pub fn deserialize<'de, D: Deserializer<'de>>(d: D) -> Result<Vec<u8>, D::Error> {
        let s = String::deserialize(d)?;
        crate::num::unhex(&s).map_err(serde::de::Error::custom)
    }
}

mod hexlist {
    use serde::{Deserialize, Deserializer, Serialize, Serializer};
    pub fn serialize<S: Serializer>(v: &Vec<Vec<u8>>, s: S) -> Result<S::Ok, S::Error> {
        v.iter()
            .map(|b| crate::num::hex(b))
            .collect::<Vec<_>>()
            .serialize(s)
    }
    pub fn deserialize<'de, D: Deserializer<'de>>(d: D) -> Result<Vec<Vec<u8>>, D::Error> {
        let v = Vec::<String>::deserialize(d)?;
        v.iter()
            .map(|s| crate::num::unhex(s).map_err(serde::de::Error::custom))
            .collect()
    }
}

#[derive(Serialize, Deserialize, Clone, Copy, Debug, PartialEq, Eq, PartialOrd, Ord, Hash)]
#[serde(rename_all = "lowercase")]
pub enum Config {
    /// no faults at all
    Control,
    /// only faults a correct system must mask
    Benign,
    /// benign + destructive faults
    Destructive,
}

#[derive(Serialize, Deserialize, Clone, Debug, PartialEq, Eq, Default)]
pub struct WritePlan {
    /// i-th write call accepts at most chunks[i % len] bytes (0 = everything offered).
    #[serde(default)]
    pub chunks: Vec<u32>,
    /// write-call indices that return `Interrupted` (W-EINTR).
    #[serde(default)]
    pub eintr: Vec<u32>,
    /// bytes already in the destination before the first record (D-PREFILL).
    #[serde(default, with = "hexbytes")]
    pub prefill: Vec<u8>,
    /// destination capacity exactly the advertised length (D-EXACT), where the codec has one.
    #[serde(default)]
    pub exact: bool,
    /// hard write error once this many bytes (of all records) were accepted (W-ERR@k).
    #[serde(default)]
    pub err_at: Option<usize>,
}

#[derive(Serialize, Deserialize, Clone, Copy, Debug, PartialEq, Eq)]
pub enum CutKind {
    /// hard read error (R-ERR)
    #[serde(rename = "ERR")]
    Err,
    /// early end of file (R-EOF)
    #[serde(rename = "EOF")]
    Eof,
}

#[derive(Serialize, Deserialize, Clone, Debug, PartialEq, Eq, Default)]
pub struct ReadPlan {
    #[serde(default)]
    pub chunks: Vec<u32>,
    #[serde(default)]
    pub eintr: Vec<u32>,
    /// reader fails at this global byte offset of the medium (R-ERR@k / R-EOF@k).
    #[serde(default)]
    pub cut: Option<(usize, CutKind)>,
    /// SCALE `remaining_len()`: 0 exact, 1 None (L-NONE), 2 over-estimate (L-BIG), 3 under-estimate (L-SMALL).
    #[serde(default)]
    pub remaining_len: u8,
    /// SCALE `on_before_alloc_mem` refuses requests above this (A-BUDGET).
    #[serde(default)]
    pub alloc_budget: Option<usize>,
}

#[derive(Serialize, Deserialize, Clone, Debug, PartialEq, Eq)]
#[serde(tag = "kind")]
pub enum MFault {
    /// medium loses everything from global offset `at` (torn / lost tail)
    #[serde(rename = "M-TRUNC")]
    Trunc { at: usize },
    #[serde(rename = "M-FLIP")]
    Flip { at: usize, bit: u8 },
    #[serde(rename = "M-SUB")]
    Sub { at: usize, byte: u8 },
    #[serde(rename = "M-ZERO")]
    Zero { at: usize, len: usize },
    #[serde(rename = "M-DUP")]
    Dup { at: usize, len: usize },
    #[serde(rename = "M-TAIL")]
    Tail {
        #[serde(with = "hexbytes")]
        bytes: Vec<u8>,
    },
    /// a multi-byte field reads back as something else (garbage sector / corrupted header field)
    #[serde(rename = "M-FIELD")]
    Field {
        at: usize,
        #[serde(with = "hexbytes")]
        bytes: Vec<u8>,
    },
    /// record `rec` reads back as unrelated bytes (foreign / garbage sector)
    #[serde(rename = "M-GARBAGE")]
    Garbage {
        rec: usize,
        #[serde(with = "hexbytes")]
        bytes: Vec<u8>,
        /// built from the format's grammar by a hostile producer (M-FORGE) rather than noise
        #[serde(default)]
        forged: bool,
    },
    /// adversarial non-minimal re-encoding of record `rec` (format specific)
    #[serde(rename = "M-PAD0")]
    Pad0 { rec: usize },
}

impl MFault {
    pub fn kind(&self) -> &'static str {
        match self {
            MFault::Trunc { .. } => "M-TRUNC",
            MFault::Flip { .. } => "M-FLIP",
            MFault::Sub { .. } => "M-SUB",
            MFault::Zero { .. } => "M-ZERO",
            MFault::Dup { .. } => "M-DUP",
            MFault::Tail { .. } => "M-TAIL",
            MFault::Field { .. } => "M-FIELD",
            MFault::Garbage { forged: true, .. } => "M-FORGE",
            MFault::Garbage { .. } => "M-GARBAGE",
            MFault::Pad0 { .. } => "M-PAD0",
        }
    }
}

/// Entropy source description for the `entropy` arm.
#[derive(Serialize, Deserialize, Clone, Debug, PartialEq, Eq, Default)]
pub struct EntropyPlan {
    /// stream class label (E-STREAM): prng | ones | zeros | alt | onebit
    #[serde(default)]
    pub class: String,
    /// the stream content, explicit (read cyclically by RngCore stubs; exactly by Unstructured)
    #[serde(default, with = "hexbytes")]
    pub stream: Vec<u8>,
    /// the source panics after delivering this many bytes (E-FAIL@k)
    #[serde(default)]
    pub fail_at: Option<usize>,
    /// `Unstructured` only sees this many bytes (E-DRY@k)
    #[serde(default)]
    pub dry_at: Option<usize>,
    /// seed handed to seeded third-party generators (quickcheck Gen, proptest TestRng)
    #[serde(default)]
    pub gen_seed: u64,
    /// steps of the simplify/complicate walk (proptest), bit i of `walk` = simplify(1)/complicate(0)
    #[serde(default)]
    pub walk: Vec<u8>,
    /// bytes the `&mut` target holds before `randomize_with` (so that an unwind is observable)
    #[serde(default, with = "hexbytes")]
    pub prior: Vec<u8>,
}

#[derive(Serialize, Deserialize, Clone, Debug, PartialEq, Eq)]
pub struct Expect {
    pub class: String,
    pub detail: String,
}

#[derive(Serialize, Deserialize, Clone, Debug, PartialEq, Eq)]
pub struct Plan {
    pub version: u32,
    #[serde(default)]
    pub property: String,
    /// pipeline | text | entropy
    pub arm: String,
    pub codec: String,
    pub bits: usize,
    #[serde(default)]
    pub seed: u64,
    pub config: Config,
    /// values, minimal big-endian hex
    #[serde(default, with = "hexlist")]
    pub records: Vec<Vec<u8>>,
    /// codec-specific variant selector (framing, destination type, delivery form, ...)
    #[serde(default)]
    pub flavour: u32,
    /// codec-specific extra knobs (postgres type index, radix, digit list, ...)
    #[serde(default)]
    pub aux: Vec<u64>,
    /// text arm: the (already damaged) text handed to the parser
    #[serde(default, with = "hexbytes")]
    pub text: Vec<u8>,
    /// labels of generator-time faults already folded into `text` / `aux` (T-*, S-*, P-SKEW)
    #[serde(default)]
    pub notes: Vec<String>,
    #[serde(default)]
    pub write: WritePlan,
    #[serde(default)]
    pub medium: Vec<MFault>,
    #[serde(default)]
    pub read: ReadPlan,
    #[serde(default)]
    pub entropy: EntropyPlan,
    #[serde(default)]
    pub expect: Option<Expect>,
}

impl Plan {
    pub fn new(arm: &str, codec: &str, bits: usize, config: Config) -> Self {
        Self {
            version: 1,
            property: String::new(),
            arm: arm.to_string(),
            codec: codec.to_string(),
            bits,
            seed: 0,
            config,
            records: vec![],
            flavour: 0,
            aux: vec![],
            text: vec![],
            notes: vec![],
            write: WritePlan::default(),
            medium: vec![],
            read: ReadPlan::default(),
            entropy: EntropyPlan::default(),
            expect: None,
        }
    }

    pub fn aux(&self, i: usize) -> u64 {
        self.aux.get(i).copied().unwrap_or(0)
    }
}
