//! postgres-types `ToSql` / `FromSql`, driven with wire bytes directly (no server).
//! aux[0] = writer column type index, aux[1] = reader column type index (P-SKEW when different).
//! flavour 0: `to_sql` into a fresh `BytesMut`; 1: `to_sql_checked` into a pre-filled `BytesMut`.

use super::*;
use crate::num::{self, nbytes};
use crate::reftext::{self, TextDen};
use ::bytes::BytesMut;
use num_bigint::BigUint;
use postgres_types::{FromSql, IsNull, ToSql, Type};
use ruint::Uint;

pub const FLAVOURS: u32 = 2;
pub const STRICT: bool = false;
pub use super::has_seam as seamless_flavour;
pub const SEAMLESS: bool = false;

pub const TYPES: &[(&str, Type)] = &[
    ("BOOL", Type::BOOL),
    ("INT2", Type::INT2),
    ("INT4", Type::INT4),
    ("INT8", Type::INT8),
    ("OID", Type::OID),
    ("FLOAT4", Type::FLOAT4),
    ("FLOAT8", Type::FLOAT8),
    ("MONEY", Type::MONEY),
    ("NUMERIC", Type::NUMERIC),
    ("BYTEA", Type::BYTEA),
    ("BIT", Type::BIT),
    ("VARBIT", Type::VARBIT),
    ("CHAR", Type::CHAR),
    ("TEXT", Type::TEXT),
    ("VARCHAR", Type::VARCHAR),
    ("JSON", Type::JSON),
    ("JSONB", Type::JSONB),
];

pub fn supports(_bits: usize, _flavour: u32) -> bool {
    true
}
pub fn framing(_p: &Plan) -> Framing {
    Framing::Message
}
pub use super::no as io_writer;
pub use super::no as writer_fallible;
pub use super::no as io_reader;
pub use super::no as scale_input;
pub use super::no_pad0 as pad0;

fn wname(p: &Plan) -> &'static str {
    TYPES[p.aux(0) as usize % TYPES.len()].0
}
fn rname(p: &Plan) -> &'static str {
    TYPES[p.aux(1) as usize % TYPES.len()].0
}

/// FLOAT4/FLOAT8 are excluded from the round-trip by the property itself.
pub fn lossy(p: &Plan) -> bool {
    wname(p).starts_with("FLOAT") || rname(p).starts_with("FLOAT")
}

/// The column type cannot represent the value: `to_sql` is expected to return an error.
pub fn may_refuse(p: &Plan, vals: &[Num]) -> bool {
    let v = num::to_biguint(&vals[0]);
    let lim = |x: u64| v > BigUint::from(x);
    match wname(p) {
        "BOOL" => lim(1),
        "INT2" => lim(i16::MAX as u64),
        "INT4" => lim(i32::MAX as u64),
        "OID" => lim(u64::from(u32::MAX)),
        "INT8" => lim(i64::MAX as u64),
        "MONEY" => lim(i64::MAX as u64 / 100),
        "BIT" => p.bits == 0,
        _ => false,
    }
}

pub fn ref_enc(p: &Plan, vals: &[Num]) -> Vec<u8> {
    let v = &vals[0];
    let small = num::to_u128(v).unwrap_or(u128::MAX);
    let hexs = {
        let d = num::hex_digits(v);
        format!("0x{}", if d.is_empty() { "0" } else { &d })
    };
    match wname(p) {
        "BOOL" => vec![small as u8],
        "INT2" => (small as i16).to_be_bytes().to_vec(),
        "INT4" => (small as i32).to_be_bytes().to_vec(),
        "OID" => (small as u32).to_be_bytes().to_vec(),
        "INT8" => (small as i64).to_be_bytes().to_vec(),
        "MONEY" => ((small as i64).wrapping_mul(100)).to_be_bytes().to_vec(),
        "BYTEA" => num::be_padded(v, nbytes(p.bits)),
        "BIT" | "VARBIT" => {
            let mut out = (p.bits as i32).to_be_bytes().to_vec();
            if p.bits > 0 {
                let nb = nbytes(p.bits);
                let pad = nb * 8 - p.bits;
                let shifted = num::to_biguint(v) << pad;
                out.extend(num::be_padded(&num::from_biguint(&shifted), nb));
            }
            out
        }
        "CHAR" | "TEXT" | "VARCHAR" => hexs.into_bytes(),
        "JSON" => format!("\"{hexs}\"").into_bytes(),
        "JSONB" => {
            let mut out = vec![1u8];
            out.extend(format!("\"{hexs}\"").into_bytes());
            out
        }
        "NUMERIC" => {
            let mut digits: Vec<u16> = vec![];
            let mut x = num::to_biguint(v);
            let base = BigUint::from(10000u32);
            let zero = BigUint::from(0u8);
            while x > zero {
                let d = (&x % &base).to_u32_digits().first().copied().unwrap_or(0) as u16;
                digits.push(d);
                x /= &base;
            }
            digits.reverse();
            let weight = digits.len().saturating_sub(1) as i16;
            while digits.last() == Some(&0) {
                digits.pop();
            }
            let mut out = vec![];
            out.extend((digits.len() as i16).to_be_bytes());
            out.extend(weight.to_be_bytes());
            out.extend(0i16.to_be_bytes());
            out.extend(0i16.to_be_bytes());
            for d in digits {
                out.extend((d as i16).to_be_bytes());
            }
            out
        }
        _ => vec![], // FLOAT4 / FLOAT8: never compared
    }
}

fn int_ok(bits: usize, x: i128) -> RefDec {
    if x < 0 {
        return RefDec::Invalid("negative");
    }
    let v = num::from_u128(x as u128);
    if num::fits(&v, bits) {
        RefDec::Value(vec![v], None)
    } else {
        RefDec::Invalid("value >= 2^BITS")
    }
}

fn text(bits: usize, s: &str) -> RefDec {
    match reftext::from_str(bits, s) {
        TextDen::Value(v) => RefDec::Value(vec![v], None),
        TextDen::Invalid(e) => RefDec::Invalid(e),
        TextDen::Unknown => RefDec::Unknown,
    }
}

fn json_text(bits: usize, raw: &[u8]) -> RefDec {
    let Ok(s) = std::str::from_utf8(raw) else { return RefDec::Invalid("invalid UTF-8") };
    if s.contains('\\') {
        return RefDec::Unknown;
    }
    let inner = if s.len() >= 2 && s.starts_with('"') && s.ends_with('"') { &s[1..s.len() - 1] } else { s };
    text(bits, inner)
}

fn fixed<const N: usize>(raw: &[u8]) -> Result<[u8; N], RefDec> {
    if raw.len() < N {
        return Err(RefDec::Invalid(TRUNCATED));
    }
    raw.try_into().map_err(|_| RefDec::Invalid("wrong size for fixed-size type"))
}

pub fn ref_dec(p: &Plan, raw: &[u8]) -> RefDec {
    let bits = p.bits;
    macro_rules! fx {
        ($n:literal) => {
            match fixed::<$n>(raw) {
                Ok(a) => a,
                Err(e) => return e,
            }
        };
    }
    match rname(p) {
        "BOOL" => match raw {
            [0] => int_ok(bits, 0),
            [1] => int_ok(bits, 1),
            [] => RefDec::Invalid(TRUNCATED),
            _ => RefDec::Invalid("not a bool"),
        },
        "INT2" => int_ok(bits, i128::from(i16::from_be_bytes(fx!(2)))),
        "INT4" => int_ok(bits, i128::from(i32::from_be_bytes(fx!(4)))),
        "OID" => int_ok(bits, i128::from(u32::from_be_bytes(fx!(4)))),
        "INT8" => int_ok(bits, i128::from(i64::from_be_bytes(fx!(8)))),
        "FLOAT4" => {
            let _ = fx!(4);
            RefDec::Unknown
        }
        "FLOAT8" => {
            let _ = fx!(8);
            RefDec::Unknown
        }
        "MONEY" => {
            let x = i64::from_be_bytes(fx!(8));
            if x <= -100 {
                RefDec::Invalid("negative")
            } else if x < 0 || x % 100 != 0 {
                RefDec::Unknown // fractional amounts: truncation policy is not ours to rule on
            } else {
                int_ok(bits, i128::from(x / 100))
            }
        }
        "BYTEA" => {
            if raw.len() > nbytes(bits) {
                return RefDec::Invalid("longer than BYTES");
            }
            let v = num::trim_be(raw);
            if num::fits(&v, bits) {
                RefDec::Value(vec![v], None)
            } else {
                RefDec::Invalid("value >= 2^BITS")
            }
        }
        "BIT" | "VARBIT" => {
            if raw.len() < 4 {
                return RefDec::Invalid(TRUNCATED);
            }
            let len = i32::from_be_bytes(raw[..4].try_into().unwrap());
            if len < 0 {
                return RefDec::Invalid("negative bit length");
            }
            let len = len as usize;
            let data = &raw[4..];
            let need = (len + 7) / 8;
            if data.len() < need {
                return RefDec::Invalid(TRUNCATED);
            }
            if data.len() > need {
                return RefDec::Invalid("more data bytes than the bit length announces");
            }
            let pad = need * 8 - len;
            let v = num::from_biguint(&(BigUint::from_bytes_be(data) >> pad));
            if num::fits(&v, bits) {
                RefDec::Value(vec![v], None)
            } else {
                RefDec::Invalid("value >= 2^BITS")
            }
        }
        "CHAR" | "TEXT" | "VARCHAR" => match std::str::from_utf8(raw) {
            Ok(s) => text(bits, s),
            Err(_) => RefDec::Invalid("invalid UTF-8"),
        },
        "JSON" => json_text(bits, raw),
        "JSONB" => match raw.first() {
            None => RefDec::Invalid(TRUNCATED),
            Some(1) => json_text(bits, &raw[1..]),
            Some(_) => RefDec::Invalid("unsupported JSONB version"),
        },
        "NUMERIC" => {
            if raw.len() < 8 {
                return RefDec::Invalid(TRUNCATED);
            }
            let f = |i: usize| i16::from_be_bytes([raw[i], raw[i + 1]]);
            let (nd, weight, sign, dscale) = (f(0), f(2), f(4), f(6));
            let data = &raw[8..];
            if nd < 0 || weight < 0 || sign != 0 || dscale != 0 {
                return RefDec::Invalid("negative / fractional / malformed NUMERIC header");
            }
            let (nd, weight) = (nd as usize, weight as usize);
            if data.len() < 2 * nd {
                return RefDec::Invalid(TRUNCATED);
            }
            if data.len() > 2 * nd {
                return RefDec::Invalid("more digit bytes than ndigits announces");
            }
            if nd > weight + 1 {
                return RefDec::Invalid("fractional digits");
            }
            let mut ds = vec![];
            for c in data.chunks(2) {
                let d = i16::from_be_bytes([c[0], c[1]]);
                if !(0..10000).contains(&d) {
                    return RefDec::Invalid("digit out of range");
                }
                ds.push(d as u32);
            }
            // size pre-check: a non-zero digit at power k needs > 13*k bits
            if let Some(i) = ds.iter().position(|&d| d != 0) {
                if (weight - i) * 13 > bits + 14 {
                    return RefDec::Invalid("value >= 2^BITS");
                }
            }
            let mut acc = BigUint::from(0u8);
            for i in 0..=weight {
                acc = acc * 10000u32 + ds.get(i).copied().unwrap_or(0);
                if i > ds.len() && acc == BigUint::from(0u8) {
                    break;
                }
            }
            let v = num::from_biguint(&acc);
            if num::fits(&v, bits) {
                RefDec::Value(vec![v], None)
            } else {
                RefDec::Invalid("value >= 2^BITS")
            }
        }
        _ => RefDec::Unknown,
    }
}

pub fn encode<const B: usize, const L: usize>(ws: &mut WriteSeam, p: &Plan, vals: &[Num]) -> EncResult {
    let u: Uint<B, L> = num::to_uint(&vals[0]);
    let ty = &TYPES[p.aux(0) as usize % TYPES.len()].1;
    if !<Uint<B, L> as ToSql>::accepts(ty) || !<Uint<B, L> as FromSql>::accepts(ty) {
        ws.ctx.violate("ENC!=REF", format!("postgres accepts({ty}) is false for a documented type"));
    }
    const MARK: [u8; 3] = [0xEE, 0xDD, 0xCC];
    let mut out = if p.flavour == 1 { BytesMut::from(&MARK[..]) } else { BytesMut::new() };
    let skip = out.len();
    let r = if p.flavour == 1 { u.to_sql_checked(ty, &mut out) } else { u.to_sql(ty, &mut out) };
    match r {
        Ok(IsNull::No) => {}
        Ok(IsNull::Yes) => return Err("IsNull::Yes".into()),
        Err(e) => return Err(e.to_string()),
    }
    if out[..skip] != MARK[..skip] {
        ws.ctx.violate("ENC!=REF", "to_sql clobbered existing buffer content");
    }
    // float column types are excluded from the round trip, but the wire size is part of the format
    let want_len = match wname(p) {
        "FLOAT4" => Some(4),
        "FLOAT8" => Some(8),
        _ => None,
    };
    if let Some(n) = want_len {
        if out.len() - skip != n {
            ws.ctx.violate("ENC!=REF", format!("postgres {} value encoded in {} bytes instead of {n}", wname(p), out.len() - skip));
        }
    }
    ws.append(&out[skip..]);
    Ok(())
}

pub fn decode<const B: usize, const L: usize>(rs: &mut ReadSeam, p: &Plan) -> DecResult {
    rs.note_cut_for_slice();
    let s = rs.rest();
    if p.aux(0) != p.aux(1) {
        rs.ctx.fire("P-SKEW");
    }
    let ty = &TYPES[p.aux(1) as usize % TYPES.len()].1;
    let u = <Uint<B, L> as FromSql>::from_sql(ty, s).map_err(|e| e.to_string())?;
    rs.advance(s.len());
    let n = rs.ctx.observe("postgres from_sql", &u);
    Ok((vec![n], None))
}
