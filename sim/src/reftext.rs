//! RefText: what a string denotes under the documented `from_str` / `from_str_radix` grammar.
//! Independent implementation on top of num-bigint arithmetic; three-valued like `RefDec`.

use crate::num::{self, Num};
use num_bigint::BigUint;

#[derive(Clone, Debug, PartialEq, Eq)]
pub enum TextDen {
    Value(Num),
    Invalid(&'static str),
    Unknown,
}

/// `Uint::<BITS>::from_str_radix(s, radix)`.
pub fn from_str_radix(bits: usize, s: &str, radix: u64) -> TextDen {
    if radix > 64 {
        return TextDen::Invalid("radix > 64");
    }
    if radix < 2 {
        return TextDen::Invalid("radix < 2");
    }
    let mut acc = BigUint::from(0u8);
    let limit = BigUint::from(1u8) << bits;
    let mut unknown = false;
    for c in s.chars() {
        let d: u64 = if radix <= 36 {
            match c {
                '0'..='9' => c as u64 - '0' as u64,
                'a'..='z' => c as u64 - 'a' as u64 + 10,
                'A'..='Z' => c as u64 - 'A' as u64 + 10,
                '_' => continue,
                _ => return TextDen::Invalid("character outside the alphabet"),
            }
        } else {
            match c {
                'A'..='Z' => c as u64 - 'A' as u64,
                'a'..='z' => {
                    // documented as digits 26..51; the implementation only accepts a..f.
                    // Whether g..z "denote" anything is C09's question: never judged here.
                    if c > 'f' {
                        unknown = true;
                    }
                    c as u64 - 'a' as u64 + 26
                }
                '0'..='9' => c as u64 - '0' as u64 + 52,
                '+' | '-' => 62,
                '/' | ',' | '_' => 63,
                '=' | '\r' | '\n' => continue,
                _ => return TextDen::Invalid("character outside the alphabet"),
            }
        };
        if d >= radix {
            return TextDen::Invalid("digit >= radix");
        }
        acc = acc * radix + d;
        if acc >= limit {
            // keep scanning only to classify; the number can only grow
            return if unknown { TextDen::Unknown } else { invalid_or_later_error(s, radix) };
        }
    }
    if unknown {
        return TextDen::Unknown;
    }
    TextDen::Value(num::from_biguint(&acc))
}

fn invalid_or_later_error(_s: &str, _radix: u64) -> TextDen {
    TextDen::Invalid("value >= 2^BITS")
}

/// `Uint::<BITS>::from_str(s)`: prefix sniffing then `from_str_radix`.
pub fn from_str(bits: usize, s: &str) -> TextDen {
    let (rest, radix) = if s.is_char_boundary(2) && s.len() >= 2 {
        match &s[..2] {
            "0x" | "0X" => (&s[2..], 16),
            "0o" | "0O" => (&s[2..], 8),
            "0b" | "0B" => (&s[2..], 2),
            _ => (s, 10),
        }
    } else {
        (s, 10)
    };
    from_str_radix(bits, rest, radix)
}

/// The human-readable serde visitor's view of a string.
pub fn serde_str(bits: usize, s: &str) -> TextDen {
    from_str(bits, s)
}

#[cfg(test)]
mod tests {
    use super::*;
    #[test]
    fn text() {
        assert_eq!(from_str(8, "0xff"), TextDen::Value(vec![0xff]));
        assert_eq!(from_str(8, "0x100"), TextDen::Invalid("value >= 2^BITS"));
        assert_eq!(from_str(8, "256"), TextDen::Invalid("value >= 2^BITS"));
        assert_eq!(from_str(8, "2_5_5"), TextDen::Value(vec![0xff]));
        assert_eq!(from_str(8, ""), TextDen::Value(vec![]));
        assert_eq!(from_str(8, "0x"), TextDen::Value(vec![]));
        assert_eq!(from_str(8, "0b2"), TextDen::Invalid("digit >= radix"));
        assert_eq!(from_str(8, "1é"), TextDen::Invalid("character outside the alphabet"));
        assert_eq!(from_str_radix(64, "z", 36), TextDen::Value(vec![35]));
        assert_eq!(from_str_radix(64, "g", 64), TextDen::Unknown);
        assert_eq!(from_str_radix(64, "B", 64), TextDen::Value(vec![1]));
        assert_eq!(from_str_radix(64, "1", 65), TextDen::Invalid("radix > 64"));
    }
}
