//! The monomorphised width sets (const generics cannot be chosen at run time).
//!
//! Set A (default build) — shape classes (DESIGN §2.5): zero; sub-byte; byte-aligned non-limb;
//! `BYTES % 8 == 0 && BITS % 64 != 0` (60, 63, 121, 127, 250, 255: whole-limb decode fast path
//! with a non-trivial mask); limb-aligned; RLP 55/56-byte boundary (440/441/448); SCALE compact
//! limit (535/536); DER length-form boundaries (1024, 2048); more than 64 limbs (4160: anything
//! that keeps one flag per limb in a u64 breaks there). BITS % 8 covers every residue.
//!
//! Set B (cargo feature `widths-b`, built into its own target directory; half a batch in the quick tier, ten in the thorough tier) —
//! 44 further widths of the same shape classes (other residues, other limb counts incl. 9..15
//! limbs, the remaining bytemuck Pod widths 576..960, ark-ff's 832), so that nothing silently
//! depends on the particular widths of set A.

#[cfg(not(feature = "widths-b"))]
pub const WIDTHS: &[usize] = &[0, 1, 2, 3, 7, 8, 12, 13, 16, 30, 31, 32, 33, 60, 63, 64, 65, 72, 100, 121, 127, 128, 129, 160, 192, 200, 250, 255, 256, 257, 320, 384, 440, 441, 448, 512, 520, 535, 536, 768, 1024, 2048, 4096, 4160];
#[cfg(feature = "widths-b")]
pub const WIDTHS: &[usize] = &[4, 5, 6, 9, 15, 24, 40, 48, 56, 57, 61, 66, 80, 96, 112, 120, 126, 130, 136, 184, 191, 193, 224, 248, 264, 272, 300, 400, 447, 449, 504, 528, 576, 600, 640, 704, 832, 896, 960, 1000, 1536, 3000, 4224, 65600];

/// Widths small enough to enumerate every value / every short input.
#[cfg(not(feature = "widths-b"))]
pub const SMALL_WIDTHS: &[usize] = &[0, 1, 2, 3, 7, 8, 12, 13];
#[cfg(feature = "widths-b")]
pub const SMALL_WIDTHS: &[usize] = &[4, 5, 6, 9, 15];

/// Width class index used in coverage signatures and violation keys.
pub fn width_class(bits: usize) -> u8 {
    let bytes = (bits + 7) / 8;
    if bits == 0 {
        0
    } else if bits < 8 {
        1
    } else if bits % 64 == 0 {
        2
    } else if bytes % 8 == 0 {
        3 // whole-limb byte length, partial top-limb mask
    } else if bits % 8 == 0 {
        4
    } else {
        5
    }
}

/// `for_width!(bits, func(args...))` calls `func::<BITS, LIMBS>(args...)`.
#[cfg(not(feature = "widths-b"))]
#[macro_export]
macro_rules! for_width {
    ($bits:expr, $f:ident ( $($a:expr),* $(,)? )) => {
        match $bits {
            0 => $f::<0, 0>($($a),*),
            1 => $f::<1, 1>($($a),*),
            2 => $f::<2, 1>($($a),*),
            3 => $f::<3, 1>($($a),*),
            7 => $f::<7, 1>($($a),*),
            8 => $f::<8, 1>($($a),*),
            12 => $f::<12, 1>($($a),*),
            13 => $f::<13, 1>($($a),*),
            16 => $f::<16, 1>($($a),*),
            30 => $f::<30, 1>($($a),*),
            31 => $f::<31, 1>($($a),*),
            32 => $f::<32, 1>($($a),*),
            33 => $f::<33, 1>($($a),*),
            60 => $f::<60, 1>($($a),*),
            63 => $f::<63, 1>($($a),*),
            64 => $f::<64, 1>($($a),*),
            65 => $f::<65, 2>($($a),*),
            72 => $f::<72, 2>($($a),*),
            100 => $f::<100, 2>($($a),*),
            121 => $f::<121, 2>($($a),*),
            127 => $f::<127, 2>($($a),*),
            128 => $f::<128, 2>($($a),*),
            129 => $f::<129, 3>($($a),*),
            160 => $f::<160, 3>($($a),*),
            192 => $f::<192, 3>($($a),*),
            200 => $f::<200, 4>($($a),*),
            250 => $f::<250, 4>($($a),*),
            255 => $f::<255, 4>($($a),*),
            256 => $f::<256, 4>($($a),*),
            257 => $f::<257, 5>($($a),*),
            320 => $f::<320, 5>($($a),*),
            384 => $f::<384, 6>($($a),*),
            440 => $f::<440, 7>($($a),*),
            441 => $f::<441, 7>($($a),*),
            448 => $f::<448, 7>($($a),*),
            512 => $f::<512, 8>($($a),*),
            520 => $f::<520, 9>($($a),*),
            535 => $f::<535, 9>($($a),*),
            536 => $f::<536, 9>($($a),*),
            768 => $f::<768, 12>($($a),*),
            1024 => $f::<1024, 16>($($a),*),
            2048 => $f::<2048, 32>($($a),*),
            4096 => $f::<4096, 64>($($a),*),
            4160 => $f::<4160, 65>($($a),*),
            other => panic!("width {other} is not monomorphised in this build (set A)"),
        }
    };
}

#[cfg(feature = "widths-b")]
#[macro_export]
macro_rules! for_width {
    ($bits:expr, $f:ident ( $($a:expr),* $(,)? )) => {
        match $bits {
            4 => $f::<4, 1>($($a),*),
            5 => $f::<5, 1>($($a),*),
            6 => $f::<6, 1>($($a),*),
            9 => $f::<9, 1>($($a),*),
            15 => $f::<15, 1>($($a),*),
            24 => $f::<24, 1>($($a),*),
            40 => $f::<40, 1>($($a),*),
            48 => $f::<48, 1>($($a),*),
            56 => $f::<56, 1>($($a),*),
            57 => $f::<57, 1>($($a),*),
            61 => $f::<61, 1>($($a),*),
            66 => $f::<66, 2>($($a),*),
            80 => $f::<80, 2>($($a),*),
            96 => $f::<96, 2>($($a),*),
            112 => $f::<112, 2>($($a),*),
            120 => $f::<120, 2>($($a),*),
            126 => $f::<126, 2>($($a),*),
            130 => $f::<130, 3>($($a),*),
            136 => $f::<136, 3>($($a),*),
            184 => $f::<184, 3>($($a),*),
            191 => $f::<191, 3>($($a),*),
            193 => $f::<193, 4>($($a),*),
            224 => $f::<224, 4>($($a),*),
            248 => $f::<248, 4>($($a),*),
            264 => $f::<264, 5>($($a),*),
            272 => $f::<272, 5>($($a),*),
            300 => $f::<300, 5>($($a),*),
            400 => $f::<400, 7>($($a),*),
            447 => $f::<447, 7>($($a),*),
            449 => $f::<449, 8>($($a),*),
            504 => $f::<504, 8>($($a),*),
            528 => $f::<528, 9>($($a),*),
            576 => $f::<576, 9>($($a),*),
            600 => $f::<600, 10>($($a),*),
            640 => $f::<640, 10>($($a),*),
            704 => $f::<704, 11>($($a),*),
            832 => $f::<832, 13>($($a),*),
            896 => $f::<896, 14>($($a),*),
            960 => $f::<960, 15>($($a),*),
            1000 => $f::<1000, 16>($($a),*),
            1536 => $f::<1536, 24>($($a),*),
            3000 => $f::<3000, 47>($($a),*),
            4224 => $f::<4224, 66>($($a),*),
            65600 => $f::<65600, 1025>($($a),*),
            other => panic!("width {other} is not monomorphised in this build (set B)"),
        }
    };
}
