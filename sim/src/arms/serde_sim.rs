//! serde at the data-model level, against the simulator's own `Serializer`/`Deserializer`.
//! flavour bit0: writer is human-readable; bit1: the type is `Bits`.
//! aux[0] = 1: reader's `is_human_readable` differs from the writer's (S-FLAG)
//! aux[1]: delivery form 0 transient (`visit_str`/`visit_bytes`), 1 owned, 2 borrowed (S-FORM)
//! aux[2]: alien item kind (S-ALIEN / S-ERR), aux[3], aux[4]: its payload
//! write.err_at = Some(_): the serializer fails (S-ERR on the write side).

use super::*;
use crate::num::{self, nbytes};
use crate::reftext::{self, TextDen};
use crate::seams::serde_sim::{Captured, Item, SimDeserializer, SimSerializer};
use ruint::{Bits, Uint};
use serde::{Deserialize, Serialize};

pub const FLAVOURS: u32 = 4;
pub const STRICT: bool = false;
pub use super::never_refuse as may_refuse;
pub use super::no as lossy;
pub use super::has_seam as seamless_flavour;
pub const SEAMLESS: bool = false;

pub fn supports(_bits: usize, _flavour: u32) -> bool {
    true
}
pub fn framing(_p: &Plan) -> Framing {
    Framing::Message
}
pub use super::no as io_writer;
pub use super::yes as writer_fallible;
pub use super::no as io_reader;
pub use super::no as scale_input;
pub use super::no_pad0 as pad0;

fn writer_hr(p: &Plan) -> bool {
    p.flavour & 1 == 1
}
fn reader_hr(p: &Plan) -> bool {
    writer_hr(p) ^ (p.aux(0) == 1)
}
fn is_bits(p: &Plan) -> bool {
    p.flavour & 2 == 2
}

pub fn ref_enc(p: &Plan, vals: &[Num]) -> Vec<u8> {
    let v = &vals[0];
    if writer_hr(p) {
        if is_bits(p) {
            if p.bits == 0 {
                return b"0x0".to_vec();
            }
            return format!("0x{}", num::hex(&num::be_padded(v, nbytes(p.bits)))).into_bytes();
        }
        let d = num::hex_digits(v);
        format!("0x{}", if d.is_empty() { "0" } else { &d }).into_bytes()
    } else {
        num::be_padded(v, nbytes(p.bits))
    }
}

fn item<'a>(p: &Plan, payload: &'a [u8]) -> Item<'a> {
    let a = p.aux(3);
    match p.aux(2) {
        1 => return Item::U64(a),
        2 => return Item::U128(u128::from(a) | (u128::from(p.aux(4)) << 64)),
        3 => return Item::I64(-((a >> 1) as i64) - 1),
        4 => return Item::F64(a as f64 + 0.5),
        5 => return Item::Bool(a & 1 == 1),
        6 => return Item::Char(char::from_u32((a % 0xD000) as u32).unwrap_or('x')),
        7 => return Item::Unit,
        8 => return Item::None,
        9 => return Item::Seq(payload),
        10 => return Item::Fail,
        11 => return Item::I64((a >> 1) as i64),
        12 => return Item::I128(-(i128::from(a)) - 1),
        _ => {}
    }
    if writer_hr(p) {
        match std::str::from_utf8(payload) {
            Ok(s) => match p.aux(1) {
                1 => Item::OwnedStr(s),
                2 => Item::BorrowedStr(s),
                _ => Item::Str(s),
            },
            Err(_) => Item::Fail, // a real text format rejects invalid UTF-8 itself
        }
    } else {
        match p.aux(1) {
            1 => Item::ByteBuf(payload),
            2 => Item::BorrowedBytes(payload),
            _ => Item::Bytes(payload),
        }
    }
}

pub fn ref_dec(p: &Plan, offered: &[u8]) -> RefDec {
    let it = item(p, offered);
    let num_ok = |x: u128| {
        let v = num::from_u128(x);
        if num::fits(&v, p.bits) {
            RefDec::Value(vec![v], None)
        } else {
            RefDec::Invalid("value >= 2^BITS")
        }
    };
    if reader_hr(p) {
        match it {
            Item::Str(s) | Item::OwnedStr(s) | Item::BorrowedStr(s) => match reftext::serde_str(p.bits, s) {
                TextDen::Value(v) => RefDec::Value(vec![v], None),
                TextDen::Invalid(e) => RefDec::Invalid(e),
                TextDen::Unknown => RefDec::Unknown,
            },
            // serde's default visit_char forwards to visit_str
            Item::Char(c) => match reftext::serde_str(p.bits, &c.to_string()) {
                TextDen::Value(v) => RefDec::Value(vec![v], None),
                TextDen::Invalid(e) => RefDec::Invalid(e),
                TextDen::Unknown => RefDec::Unknown,
            },
            Item::U64(x) => num_ok(u128::from(x)),
            Item::U128(x) => num_ok(x),
            Item::I64(x) if x >= 0 => RefDec::Unknown,
            _ => RefDec::Invalid("human-readable visitor must reject this item"),
        }
    } else {
        match it {
            Item::Bytes(b) | Item::ByteBuf(b) | Item::BorrowedBytes(b) => {
                if b.len() < nbytes(p.bits) {
                    return RefDec::Invalid(TRUNCATED);
                }
                if b.len() > nbytes(p.bits) {
                    return RefDec::Invalid("byte string length != BYTES");
                }
                let v = num::trim_be(b);
                if num::fits(&v, p.bits) {
                    RefDec::Value(vec![v], None)
                } else {
                    RefDec::Invalid("value >= 2^BITS")
                }
            }
            _ => RefDec::Invalid("binary visitor must reject this item"),
        }
    }
}

pub fn encode<const B: usize, const L: usize>(ws: &mut WriteSeam, p: &Plan, vals: &[Num]) -> EncResult {
    let u: Uint<B, L> = num::to_uint(&vals[0]);
    let fail = p.write.err_at.is_some();
    let ser = SimSerializer { human_readable: writer_hr(p), fail };
    if fail {
        ws.hard_failed = true;
        ws.ctx.fire("S-ERR");
    }
    let cap = if is_bits(p) { Bits::from(u).serialize(ser) } else { u.serialize(ser) }.map_err(|e| e.0)?;
    match cap {
        Captured::Str(s) if writer_hr(p) => ws.append(s.as_bytes()),
        Captured::Bytes(b) if !writer_hr(p) => ws.append(&b),
        other => {
            ws.ctx.violate("ENC!=REF", format!("serde: wrong data-model item for is_human_readable={}: {other:?}", writer_hr(p)));
            match other {
                Captured::Str(s) => ws.append(s.as_bytes()),
                Captured::Bytes(b) => ws.append(&b),
                Captured::Other(_) => {}
            }
        }
    }
    Ok(())
}

pub fn decode<const B: usize, const L: usize>(rs: &mut ReadSeam, p: &Plan) -> DecResult {
    rs.note_cut_for_slice();
    let s = rs.rest();
    let de = SimDeserializer { human_readable: reader_hr(p), item: item(p, s) };
    if p.aux(0) == 1 {
        rs.ctx.fire("S-FLAG");
    }
    match p.aux(2) {
        0 => {
            if p.aux(1) != 0 {
                rs.ctx.fire("S-FORM");
            }
        }
        10 => rs.ctx.fire("S-ERR"),
        _ => rs.ctx.fire("S-ALIEN"),
    }
    let u: Uint<B, L> = if is_bits(p) {
        Bits::<B, L>::deserialize(de).map_err(|e| e.0)?.into_inner()
    } else {
        Uint::<B, L>::deserialize(de).map_err(|e| e.0)?
    };
    rs.advance(s.len());
    let n = rs.ctx.observe("serde visitor", &u);
    Ok((vec![n], None))
}
