//! Codec arms: for each integration, the real encoder/decoder driven through simulator seams,
//! plus an independent reference encoder / three-valued reference decoder.

use crate::num::Num;
use crate::plan::Plan;
use crate::seams::io::{ReadSeam, WriteSeam};

pub mod borsh;
pub mod bytemuck;
pub mod convert;
pub mod der;
pub mod postgres;
pub mod raw;
pub mod refrlp;
pub mod rlp;
pub mod rlps;
pub mod scale;
pub mod serde_bin;
pub mod serde_json;
pub mod serde_sim;
pub mod ssz;

#[derive(Clone, Copy, Debug, PartialEq, Eq)]
pub enum Framing {
    /// records back to back in one medium, decoded sequentially through one reader/cursor
    Stream,
    /// each record is its own externally framed message
    Message,
    /// all records of the run travel in one container value (list/sequence)
    Container,
}

/// Three-valued reference denotation of the bytes offered to one decode operation.
#[derive(Clone, Debug, PartialEq, Eq)]
pub enum RefDec {
    /// definitely denotes these values; `Some(n)`: and a correct decoder consumes exactly n bytes
    Value(Vec<Num>, Option<usize>),
    /// definitely not a valid encoding (reason; "truncated" marks a torn record)
    Invalid(&'static str),
    /// a lenient third-party layer may or may not accept this: never alarms
    Unknown,
}

pub const TRUNCATED: &str = "truncated";

pub type EncResult = Result<(), String>;
pub type DecResult = Result<(Vec<Num>, Option<usize>), String>;

#[derive(Clone, Copy)]
pub struct ArmInfo {
    pub name: &'static str,
    pub id: u8,
    pub flavours: u32,
    /// does (bits, flavour) exist for this arm
    pub supports: fn(usize, u32) -> bool,
    pub framing: fn(&Plan) -> Framing,
    /// reference encoding of one encode operation (one record, or the whole container)
    pub ref_enc: fn(&Plan, &[Num]) -> Vec<u8>,
    pub ref_dec: fn(&Plan, &[u8]) -> RefDec,
    /// adversarial non-minimal re-encoding of one record's bytes (M-PAD0)
    pub pad0: fn(&Plan, &[u8]) -> Option<Vec<u8>>,
    /// decoder enforces canonical form: accepted input must re-encode to the consumed bytes
    pub strict: bool,
    /// encoder writes through `io::Write` (W-SHORT / W-EINTR apply)
    pub io_writer: fn(&Plan) -> bool,
    /// the writer seam can report an error to the encoder (W-ERR applies)
    pub writer_fallible: fn(&Plan) -> bool,
    /// decoder reads through `io::Read` / `Input` (R-* apply) rather than from a slice
    pub io_reader: fn(&Plan) -> bool,
    /// SCALE-specific read knobs apply (remaining_len modes, alloc budget)
    pub scale_input: fn(&Plan) -> bool,
    /// no seam at all for this flavour (value conversions): control configuration only
    pub seamless: fn(u32) -> bool,
    /// the encoder is expected to refuse (return Err for) these values under this plan
    pub may_refuse: fn(&Plan, &[Num]) -> bool,
    /// round-trip is not required (postgres float column types)
    pub lossy: fn(&Plan) -> bool,
}

macro_rules! arms {
    ($( $id:literal $name:literal $m:ident ),* $(,)?) => {
        pub const ARMS: &[ArmInfo] = &[
            $( ArmInfo {
                name: $name, id: $id,
                flavours: $m::FLAVOURS,
                supports: $m::supports,
                framing: $m::framing,
                ref_enc: $m::ref_enc,
                ref_dec: $m::ref_dec,
                pad0: $m::pad0,
                strict: $m::STRICT,
                io_writer: $m::io_writer,
                writer_fallible: $m::writer_fallible,
                io_reader: $m::io_reader,
                scale_input: $m::scale_input,
                seamless: $m::seamless_flavour,
                may_refuse: $m::may_refuse,
                lossy: $m::lossy,
            } ),*
        ];

        pub fn encode_op<const B: usize, const L: usize>(id: u8, ws: &mut WriteSeam, plan: &Plan, vals: &[Num]) -> EncResult {
            match id {
                $( $id => $m::encode::<B, L>(ws, plan, vals), )*
                _ => unreachable!(),
            }
        }

        pub fn decode_op<const B: usize, const L: usize>(id: u8, rs: &mut ReadSeam, plan: &Plan) -> DecResult {
            match id {
                $( $id => $m::decode::<B, L>(rs, plan), )*
                _ => unreachable!(),
            }
        }
    };
}

arms! {
    0 "borsh" borsh,
    1 "ssz" ssz,
    2 "scale-fixed" scale,
    3 "scale-compact" scale_compact,
    4 "alloy-rlp" alloy,
    5 "fastrlp03" fast03,
    6 "fastrlp04" fast04,
    7 "rlp" rlp,
    8 "der" der,
    9 "serde-json" serde_json,
    10 "serde-bincode" serde_bin,
    11 "serde-sim" serde_sim,
    12 "postgres" postgres,
    13 "raw-slice" raw,
    14 "bytemuck" bytemuck,
    15 "convert" convert,
}

pub use rlps::{alloy, fast03, fast04};
pub use scale::compact as scale_compact;

pub fn arm_by_name(name: &str) -> Option<&'static ArmInfo> {
    ARMS.iter().find(|a| a.name == name)
}

/// defaults for arm modules
pub fn no(_: &Plan) -> bool {
    false
}
pub fn yes(_: &Plan) -> bool {
    true
}
pub fn no_pad0(_: &Plan, _: &[u8]) -> Option<Vec<u8>> {
    None
}
pub fn never_refuse(_: &Plan, _: &[Num]) -> bool {
    false
}
pub fn has_seam(_: u32) -> bool {
    false
}
