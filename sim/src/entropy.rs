//! `entropy` arm (C04): generator integrations against simulator-owned entropy.
//! codecs: rand08-sample, rand09-sample, random_with, randomize_with (rand 0.9 API when built
//! with feature r09, rand 0.8 API otherwise), arbitrary, arbitrary-take-rest, quickcheck,
//! proptest, proptest-bits.

use crate::ctx::{guard, Ctx, Guarded};
use crate::num::{self, nbytes};
use crate::plan::Plan;
use crate::seams::entropy::{SimRng08, SimRng09, Stream};
use ruint::{Bits, Uint};

pub const CODECS: &[&str] = &[
    "rand08-sample",
    "rand09-sample",
    "random_with",
    "randomize_with",
    "arbitrary",
    "arbitrary-take-rest",
    "quickcheck",
    "proptest",
    "proptest-bits",
];

pub fn run<const B: usize, const L: usize>(ctx: &mut Ctx, plan: &Plan) {
    let e = &plan.entropy;
    ctx.fire("E-STREAM");
    ctx.log.str(&e.class);
    ctx.event_bytes("ENTROPY", &e.stream[..e.stream.len().min(32)]);
    let fail = e.fail_at;
    let what = plan.codec.as_str();
    let mut observed = 0u32;
    let gen_panic = |ctx: &mut Ctx, msg: String| {
        ctx.violate("GEN-PANIC", format!("{what} Uint<{B}>: generator panicked although the entropy source did not fail: {msg}"));
    };
    match what {
        "rand08-sample" => {
            use rand_08::distributions::{Distribution, Standard};
            let mut rng = SimRng08(Stream::new(&e.stream, fail));
            let r = guard(|| {
                let u: Uint<B, L> = Standard.sample(&mut rng);
                u
            });
            ctx.seam_events += rng.0.calls;
            match r {
                Guarded::Ok(u) => {
                    ctx.observe(what, &u);
                    observed += 1;
                }
                Guarded::EntropyFailed => ctx.fire("E-FAIL"),
                Guarded::Panic(m) => gen_panic(ctx, m),
                Guarded::Steps(_) => {}
            }
        }
        #[cfg(feature = "r09")]
        "rand09-sample" => {
            use rand_09::distr::{Distribution, StandardUniform};
            let mut rng = SimRng09(Stream::new(&e.stream, fail));
            let r = guard(|| {
                let u: Uint<B, L> = StandardUniform.sample(&mut rng);
                u
            });
            ctx.seam_events += rng.0.calls;
            match r {
                Guarded::Ok(u) => {
                    ctx.observe(what, &u);
                    observed += 1;
                }
                Guarded::EntropyFailed => ctx.fire("E-FAIL"),
                Guarded::Panic(m) => gen_panic(ctx, m),
                Guarded::Steps(_) => {}
            }
        }
        "random_with" => {
            #[cfg(feature = "r09")]
            let mut rng = SimRng09(Stream::new(&e.stream, fail));
            #[cfg(not(feature = "r09"))]
            let mut rng = SimRng08(Stream::new(&e.stream, fail));
            let r = guard(|| Uint::<B, L>::random_with(&mut rng));
            ctx.seam_events += rng.0.calls;
            match r {
                Guarded::Ok(u) => {
                    ctx.observe(what, &u);
                    observed += 1;
                }
                Guarded::EntropyFailed => ctx.fire("E-FAIL"),
                Guarded::Panic(m) => gen_panic(ctx, m),
                Guarded::Steps(_) => {}
            }
        }
        "randomize_with" => {
            #[cfg(feature = "r09")]
            let mut rng = SimRng09(Stream::new(&e.stream, fail));
            #[cfg(not(feature = "r09"))]
            let mut rng = SimRng08(Stream::new(&e.stream, fail));
            // the caller's long-lived value: canonical before the call
            let prior = num::trim_be(&e.prior);
            let prior = if num::fits(&prior, B) { prior } else { vec![] };
            let mut target: Uint<B, L> = num::to_uint(&prior);
            let r = guard(|| target.randomize_with(&mut rng));
            ctx.seam_events += rng.0.calls;
            match r {
                Guarded::Ok(()) => {}
                Guarded::EntropyFailed => {
                    ctx.fire("E-FAIL");
                    ctx.probe("target-observed-after-unwind");
                }
                Guarded::Panic(m) => gen_panic(ctx, m),
                Guarded::Steps(_) => {}
            }
            // whether or not the call unwound, the value the caller still holds must be canonical
            ctx.observe("randomize_with target", &target);
            observed += 1;
        }
        "arbitrary" | "arbitrary-take-rest" => {
            use arbitrary::{Arbitrary, Unstructured};
            let k = e.dry_at.unwrap_or(e.stream.len()).min(e.stream.len());
            if e.dry_at.is_some() && k < nbytes(B) {
                ctx.fire("E-DRY");
            }
            let data = &e.stream[..k];
            let (lo, hi) = <Uint<B, L> as Arbitrary>::size_hint(0);
            if lo != nbytes(B) || hi != Some(nbytes(B)) {
                ctx.probe("arbitrary-size-hint-differs-from-BYTES");
            }
            let r = guard(|| {
                let mut u = Unstructured::new(data);
                if what == "arbitrary" {
                    let a = Uint::<B, L>::arbitrary(&mut u);
                    let b = Uint::<B, L>::arbitrary(&mut u); // second value from what is left
                    (a.ok(), b.ok())
                } else {
                    (Uint::<B, L>::arbitrary_take_rest(u).ok(), None)
                }
            });
            ctx.seam_events += 1;
            match r {
                Guarded::Ok((a, b)) => {
                    for u in [a, b].into_iter().flatten() {
                        ctx.observe(what, &u);
                        observed += 1;
                    }
                }
                Guarded::Panic(m) => gen_panic(ctx, m),
                _ => {}
            }
        }
        "quickcheck" => {
            use quickcheck::{Arbitrary, Gen};
            ctx.fire("E-SEED");
            let size = (plan.aux(0) as usize % 256) + 1;
            let r = guard(|| {
                let mut g = Gen::from_size_and_seed(size, e.gen_seed);
                let a = Uint::<B, L>::arbitrary(&mut g);
                let b = Uint::<B, L>::arbitrary(&mut g);
                let shr: Vec<Uint<B, L>> = a.shrink().take(4).collect();
                (a, b, shr)
            });
            ctx.seam_events += 2;
            match r {
                Guarded::Ok((a, b, shr)) => {
                    ctx.observe(what, &a);
                    ctx.observe(what, &b);
                    observed += 2;
                    for s in &shr {
                        ctx.observe("quickcheck shrink", s);
                        observed += 1;
                    }
                }
                Guarded::Panic(m) => gen_panic(ctx, m),
                _ => {}
            }
        }
        "proptest" | "proptest-bits" => {
            use proptest::arbitrary::any;
            use proptest::strategy::{Strategy, ValueTree};
            use proptest::test_runner::{Config, RngAlgorithm, TestRng, TestRunner};
            // aux[0] = 0: ChaCha seeded from gen_seed; 1: PassThrough = the simulator's stream verbatim
            let rng = if plan.aux(0) == 1 {
                TestRng::from_seed(RngAlgorithm::PassThrough, &e.stream)
            } else {
                ctx.fire("E-SEED");
                let mut seed = [0u8; 32];
                for (i, b) in seed.iter_mut().enumerate() {
                    *b = (e.gen_seed.rotate_left((i * 7) as u32) as u8) ^ (i as u8);
                }
                TestRng::from_seed(RngAlgorithm::ChaCha, &seed)
            };
            let walk = e.walk.clone();
            let bits_ty = what == "proptest-bits";
            let r = guard(|| {
                let mut runner = TestRunner::new_with_rng(Config::default(), rng);
                let mut seen: Vec<Uint<B, L>> = vec![];
                if bits_ty {
                    let mut tree = any::<Bits<B, L>>().new_tree(&mut runner).map_err(|e| e.to_string())?;
                    seen.push(tree.current().into_inner());
                    for w in &walk {
                        let moved = if w & 1 == 1 { tree.simplify() } else { tree.complicate() };
                        if moved {
                            seen.push(tree.current().into_inner());
                        }
                    }
                } else {
                    let mut tree = any::<Uint<B, L>>().new_tree(&mut runner).map_err(|e| e.to_string())?;
                    seen.push(tree.current());
                    for w in &walk {
                        let moved = if w & 1 == 1 { tree.simplify() } else { tree.complicate() };
                        if moved {
                            seen.push(tree.current());
                        }
                    }
                }
                Ok::<_, String>(seen)
            });
            ctx.seam_events += 1 + walk.len() as u64;
            if !walk.is_empty() {
                ctx.fire("E-WALK");
            }
            match r {
                Guarded::Ok(Ok(seen)) => {
                    for u in &seen {
                        ctx.observe(what, u);
                        observed += 1;
                    }
                }
                Guarded::Ok(Err(_)) => {}
                Guarded::Panic(m) => gen_panic(ctx, m),
                _ => {}
            }
        }
        other => ctx.violate("HARNESS", format!("unknown entropy codec {other}")),
    }
    ctx.outcome = format!("obs{}", observed.min(3));
}
