//! SSZ: fixed-width little-endian, externally framed by `ssz_fixed_len`.
//! flavours: 0 direct (`as_ssz_bytes` / `from_ssz_bytes`), 1 `Vec<Uint>` list,
//! 2 fixed-length container through the real `SszEncoder` / `SszDecoderBuilder`.

use super::*;
use crate::num::{self, nbytes};
use ::ssz::{Decode, Encode, SszDecoderBuilder, SszEncoder};
use ruint::Uint;

pub const FLAVOURS: u32 = 3;
pub const STRICT: bool = false;
pub use super::never_refuse as may_refuse;
pub use super::no as lossy;
pub use super::has_seam as seamless_flavour;
pub const SEAMLESS: bool = false;

pub fn supports(bits: usize, flavour: u32) -> bool {
    // ssz forbids zero-length list items (`chunks(0)` panics inside the ssz crate)
    !(flavour == 1 && bits == 0)
}
pub fn framing(p: &Plan) -> Framing {
    if p.flavour == 0 {
        Framing::Message
    } else {
        Framing::Container
    }
}
pub use super::no as io_writer;
pub use super::no as writer_fallible;
pub use super::no as io_reader;
pub use super::no as scale_input;
pub use super::no_pad0 as pad0;

const MARKER: u32 = 0xA55A_0FF0;

pub fn ref_enc(p: &Plan, vals: &[Num]) -> Vec<u8> {
    let nb = nbytes(p.bits);
    let mut out = vec![];
    if p.flavour == 2 {
        out.extend_from_slice(&MARKER.to_le_bytes());
    }
    for v in vals {
        out.extend_from_slice(&num::le_padded(v, nb));
    }
    out
}

fn items(bits: usize, bytes: &[u8]) -> RefDec {
    let nb = nbytes(bits);
    let mut vals = vec![];
    if nb == 0 {
        return RefDec::Value(vals, Some(0));
    }
    for c in bytes.chunks(nb) {
        let v = num::from_le(c);
        if !num::fits(&v, bits) {
            return RefDec::Invalid("value >= 2^BITS");
        }
        vals.push(v);
    }
    RefDec::Value(vals, Some(bytes.len()))
}

pub fn ref_dec(p: &Plan, offered: &[u8]) -> RefDec {
    let nb = nbytes(p.bits);
    match p.flavour {
        0 => {
            if offered.len() < nb {
                return RefDec::Invalid(TRUNCATED);
            }
            if offered.len() > nb {
                return RefDec::Invalid("longer than ssz_fixed_len");
            }
            if nb == 0 {
                return RefDec::Value(vec![vec![]], Some(0));
            }
            items(p.bits, offered)
        }
        1 => {
            if offered.len() % nb != 0 {
                return RefDec::Invalid(TRUNCATED);
            }
            items(p.bits, offered)
        }
        _ => {
            let n = p.records.len();
            if offered.len() < 4 + n * nb {
                return RefDec::Invalid(TRUNCATED);
            }
            if offered.len() > 4 + n * nb {
                return RefDec::Invalid("excess bytes in fixed-length container");
            }
            if nb == 0 {
                return RefDec::Value(vec![vec![]; n], Some(offered.len()));
            }
            match items(p.bits, &offered[4..]) {
                RefDec::Value(v, _) => RefDec::Value(v, Some(offered.len())),
                other => other,
            }
        }
    }
}

pub fn encode<const B: usize, const L: usize>(ws: &mut WriteSeam, p: &Plan, vals: &[Num]) -> EncResult {
    let nb = nbytes(B);
    let us: Vec<Uint<B, L>> = vals.iter().map(num::to_uint).collect();
    if !<Uint<B, L> as Encode>::is_ssz_fixed_len() || <Uint<B, L> as Encode>::ssz_fixed_len() != nb {
        ws.ctx.violate("LEN", format!("ssz_fixed_len() = {} for Uint<{B}> (BYTES = {nb})", <Uint<B, L> as Encode>::ssz_fixed_len()));
    }
    if !<Uint<B, L> as Decode>::is_ssz_fixed_len() || <Uint<B, L> as Decode>::ssz_fixed_len() != nb {
        ws.ctx.violate("LEN", format!("Decode::ssz_fixed_len() = {} for Uint<{B}> (BYTES = {nb})", <Uint<B, L> as Decode>::ssz_fixed_len()));
    }
    for u in &us {
        if u.ssz_bytes_len() != nb {
            ws.ctx.violate("LEN", format!("ssz_bytes_len() = {} for Uint<{B}> (BYTES = {nb})", u.ssz_bytes_len()));
        }
    }
    if B == 64 {
        for v in vals {
            if (num::to_u128(v).unwrap() as u64).as_ssz_bytes() != num::le_padded(v, 8) {
                ws.ctx.violate("HARNESS", "reference SSZ encoding disagrees with ssz's own u64");
            }
        }
    }
    match p.flavour {
        0 => {
            // ssz_append must append (D-PREFILL lives in the Vec it is handed)
            let mut buf = vec![0xEEu8; 3];
            us[0].ssz_append(&mut buf);
            if buf[..3] != [0xEE; 3] {
                ws.ctx.violate("ENC!=REF", "ssz_append clobbered existing buffer content");
            }
            ws.append(&buf[3..]);
        }
        1 => {
            let v = us.as_ssz_bytes();
            ws.append(&v);
        }
        _ => {
            let mut buf = vec![];
            let fixed = 4 + us.len() * <Uint<B, L> as Encode>::ssz_fixed_len();
            let mut enc = SszEncoder::container(&mut buf, fixed);
            enc.append(&MARKER);
            for u in &us {
                enc.append(u);
            }
            enc.finalize();
            ws.append(&buf);
        }
    }
    Ok(())
}

pub fn decode<const B: usize, const L: usize>(rs: &mut ReadSeam, p: &Plan) -> DecResult {
    rs.note_cut_for_slice();
    let s = rs.rest();
    let out = match p.flavour {
        0 => {
            let u = Uint::<B, L>::from_ssz_bytes(s).map_err(|e| format!("{e:?}"))?;
            vec![rs.ctx.observe("ssz decode", &u)]
        }
        1 => {
            let us = Vec::<Uint<B, L>>::from_ssz_bytes(s).map_err(|e| format!("{e:?}"))?;
            us.iter().map(|u| rs.ctx.observe("ssz list item", u)).collect()
        }
        _ => {
            let mut b = SszDecoderBuilder::new(s);
            b.register_type::<u32>().map_err(|e| format!("{e:?}"))?;
            for _ in 0..p.records.len() {
                b.register_type::<Uint<B, L>>().map_err(|e| format!("{e:?}"))?;
            }
            let mut d = b.build().map_err(|e| format!("{e:?}"))?;
            let _marker: u32 = d.decode_next().map_err(|e| format!("{e:?}"))?;
            let mut out = vec![];
            for _ in 0..p.records.len() {
                let u: Uint<B, L> = d.decode_next().map_err(|e| format!("{e:?}"))?;
                out.push(rs.ctx.observe("ssz container field", &u));
            }
            out
        }
    };
    rs.advance(s.len());
    Ok((out, Some(s.len())))
}
