"""Scratch environment shared by bin/mutants and bin/seeded: a detached git worktree of /repo plus a
copy of the simulator crate pointing at it, with its own target directory. Nothing in /repo or
/verif is touched; remove with cleanup()."""
import os, shutil, subprocess


def sh(cmd, **kw):
    return subprocess.run(cmd, shell=True, stdout=subprocess.PIPE, stderr=subprocess.STDOUT, text=True, **kw)


class Scratch:
    def __init__(self, root):
        self.root = root
        self.repo = f"{root}/repo"
        self.sim = f"{root}/sim"

    def setup(self):
        if os.path.exists(self.root):
            self.cleanup()
        os.makedirs(self.root)
        r = sh(f"git -C /repo worktree add --detach {self.repo} HEAD")
        assert r.returncode == 0, r.stdout
        shutil.copytree("/verif/sim", self.sim, ignore=shutil.ignore_patterns("target", "target-*"))
        p = f"{self.sim}/Cargo.toml"
        text = open(p).read().replace('path = "/repo"', f'path = "{self.repo}"')
        open(p, "w").write(text)
        open(f"{self.root}/known.json", "w").write(open("/verif/known-findings.json").read())

    def cleanup(self):
        sh(f"git -C /repo worktree remove --force {self.repo}")
        shutil.rmtree(self.root, ignore_errors=True)
        sh("git -C /repo worktree prune")

    def run_checks(self, seed=20260926):
        """Build both feature configurations and run the three quick checks. Returns (results, error)."""
        r = sh(f"cd {self.sim} && CARGO_NET_OFFLINE=true cargo build --release --offline && CARGO_NET_OFFLINE=true cargo build --release --offline --no-default-features --target-dir {self.sim}/target-r08")
        if r.returncode != 0:
            return None, r.stdout[-2000:]
        out = {}
        for p in ["C16", "C17", "C04"]:
            runs = [f"{self.sim}/target/release/simctl run --property {p} --tier quick --seed {seed}"]
            if p == "C04":
                runs.append(f"{self.sim}/target-r08/release/simctl run --property {p} --tier quick --seed {seed} --only-stage 5 --build-label r08")
            rc, classes, first = 0, set(), ""
            for cmd in runs:
                r = sh(f"cd {self.sim} && {cmd} --known {self.root}/known.json --replays {self.root}/replays")
                rc = max(rc, r.returncode)
                lines = r.stdout.splitlines()
                for i, l in enumerate(lines):
                    if "class=" in l and "codec=" in l:
                        classes.add(l.split("class=")[1].split()[0] + "/" + l.split("codec=")[1].split()[0])
                    if l.startswith("VIOLATION") and not first:
                        first = " | ".join(x.strip() for x in lines[i:i + 3])[:600]
            out[p] = {"exit": rc, "classes": sorted(classes), "first_violation": first}
        return out, ""

    def run_wb(self, props, scale, seed=20260926):
        """The second-width-set run (cargo feature widths-b), as bin/check runs it (scale 0.5 quick, 10 thorough)."""
        r = sh(f"cd {self.sim} && CARGO_NET_OFFLINE=true cargo build --release --offline --features widths-b --target-dir {self.sim}/target-wb")
        if r.returncode != 0:
            return None, r.stdout[-2000:]
        out = {}
        for p in props:
            r = sh(f"cd {self.sim} && {self.sim}/target-wb/release/simctl run --property {p} --tier quick --scale {scale} --seed {seed} --build-label widthsB --known {self.root}/known.json --replays {self.root}/replays")
            classes, first = set(), ""
            lines = r.stdout.splitlines()
            for i, l in enumerate(lines):
                if "class=" in l and "codec=" in l:
                    classes.add(l.split("class=")[1].split()[0] + "/" + l.split("codec=")[1].split()[0])
                if l.startswith("VIOLATION") and not first:
                    first = " | ".join(x.strip() for x in lines[i:i + 3])[:600]
            out[p] = {"exit": r.returncode, "classes": sorted(classes), "first_violation": first}
        return out, ""
