//! seed -> Plan. Every choice of a run is drawn here, from one xoshiro stream, in a fixed order.

use crate::arms::{self, ArmInfo, Framing};
use crate::num::{self, nbytes, Num};
use crate::plan::{Config, CutKind, MFault, Plan};
use crate::prng::Rng;
use crate::widths::WIDTHS;

/// Relative weight of each codec arm in the pipeline workload.
fn arm_weight(a: &ArmInfo) -> usize {
    match a.name {
        "postgres" => 8,
        "der" | "serde-json" => 5,
        "convert" => 2,
        "bytemuck" => 1,
        _ => 4,
    }
}

pub fn gen_value(rng: &mut Rng, bits: usize) -> Num {
    if bits == 0 {
        return vec![];
    }
    let nb = nbytes(bits);
    let max = num::max_value(bits);
    let clamp = |v: Num| -> Num {
        if num::fits(&v, bits) {
            num::trim_be(&v)
        } else {
            // keep the low `bits` bits
            let mut b = num::be_padded(&num::trim_be(&v[v.len().saturating_sub(nb)..]), nb);
            let top = bits % 8;
            if top != 0 {
                b[0] &= (1u16 << top) as u8 - 1;
            }
            num::trim_be(&b)
        }
    };
    match rng.below(17) {
        14 => {
            // decimal / base-10000 boundaries (postgres NUMERIC digits and weights, MONEY scaling)
            use num_bigint::BigUint;
            let max_k = (bits as f64 * 0.30103) as u32; // ~log10(2^bits)
            let k = rng.below(max_k as usize + 1) as u32;
            let base = if rng.chance(1, 2) { BigUint::from(10u32).pow(k) } else { BigUint::from(10000u32).pow(k / 4) * BigUint::from(1 + rng.below(9999) as u32) };
            let d = *rng.pick(&[-1i64, 0, 0, 0, 1]);
            clamp(num::add_small(&num::from_biguint(&base), d))
        }
        15 => {
            // a small number shifted up by whole bytes (trailing zero bytes: LE-trimmed forms, NUMERIC)
            let k = rng.below(nb);
            let mut v = num::from_u128(u128::from(rng.next() >> rng.below(60)));
            v.extend(std::iter::repeat(0).take(k));
            clamp(num::trim_be(&v))
        }
        16 => {
            // column-type limits: i16/i32/i64 max, u32 max, i64::MAX / 100 (MONEY)
            let c = [i16::MAX as u128, i32::MAX as u128, u32::MAX as u128, i64::MAX as u128, (i64::MAX / 100) as u128, u64::MAX as u128];
            let d = *rng.pick(&[0i64, 0, 1, -1]);
            clamp(num::add_small(&num::from_u128(*rng.pick(&c)), d))
        }
        0 => vec![],
        1 => vec![1],
        2 => {
            let c = [63u16, 64, 127, 128, 129, 255, 256, 55, 56];
            clamp(num::from_u128(u128::from(*rng.pick(&c))))
        }
        3 => {
            // SCALE compact / general mode boundaries
            let k = *rng.pick(&[6usize, 7, 8, 14, 15, 16, 30, 31, 32, 62, 63, 64]);
            let d = *rng.pick(&[-1i64, 0, 1]);
            clamp(num::add_small(&num::pow2(k), d))
        }
        4 => {
            // 2^(8k) - 1, 2^(8k), 2^(8k) + 1
            let k = rng.range(1, nb);
            let d = *rng.pick(&[-1i64, 0, 1]);
            clamp(num::add_small(&num::pow2(8 * k), d))
        }
        5 => match rng.below(4) {
            0 => max,
            1 => num::add_small(&max, -1),
            2 => num::pow2(bits - 1),
            _ => num::add_small(&num::pow2(bits - 1), -1),
        },
        6 => {
            // top byte 0x7f.. / 0x80.. at a random byte length (DER sign pad, RLP header sizes)
            let k = rng.range(1, nb);
            let mut v = rng.bytes(k);
            v[0] = *rng.pick(&[0x7f, 0x80, 0x01, 0xff]);
            clamp(v)
        }
        7 => num::pow2(rng.below(bits)),
        8 => clamp(num::from_u128(u128::from(rng.next()))),
        9 => {
            let mut v = vec![0u8; nb];
            for _ in 0..rng.range(1, 4) {
                let b = rng.below(bits);
                v[nb - 1 - b / 8] |= 1 << (b % 8);
            }
            num::trim_be(&v)
        }
        10 => {
            // byte-length boundaries of the formats: 55/56 (RLP), 127/128, 255/256 (DER), 66/67 (SCALE)
            let k = *rng.pick(&[55usize, 56, 57, 66, 67, 127, 128, 129, 255, 256, 4, 5, 8, 9, 16, 17]);
            let k = k.min(nb);
            let mut v = rng.bytes(k);
            if v[0] == 0 {
                v[0] = 1;
            }
            clamp(v)
        }
        11 => clamp(num::from_u128(u128::from(rng.next()) << 64 | u128::from(rng.next()))),
        _ => clamp(rng.bytes(nb)),
    }
}

fn gen_chunks(rng: &mut Rng) -> Vec<u32> {
    match rng.below(5) {
        0 => vec![],
        1 => vec![1],
        2 => vec![2, 1],
        3 => (0..rng.range(1, 4)).map(|_| rng.range(1, 9) as u32).collect(),
        _ => vec![rng.range(1, 40) as u32, 0],
    }
}

fn gen_eintr(rng: &mut Rng) -> Vec<u32> {
    if rng.chance(1, 2) {
        return vec![];
    }
    let mut v: Vec<u32> = vec![];
    let start = rng.below(10) as u32;
    match rng.below(3) {
        0 => v.push(start),
        1 => v.extend([start, start + 1, start + 2]), // a burst
        _ => {
            for _ in 0..rng.range(1, 4) {
                v.push(rng.below(24) as u32);
            }
        }
    }
    v.sort_unstable();
    v.dedup();
    v
}

fn pick_arm(rng: &mut Rng) -> &'static ArmInfo {
    let total: usize = arms::ARMS.iter().map(arm_weight).sum();
    let mut x = rng.below(total);
    for a in arms::ARMS {
        let w = arm_weight(a);
        if x < w {
            return a;
        }
        x -= w;
    }
    unreachable!()
}

pub struct Restrict<'a> {
    pub codec: Option<&'a str>,
    pub bits: Option<usize>,
}

/// A pipeline run in one of the allowed configurations.
pub fn gen_pipeline(seed: u64, allowed: &[Config], restrict: &Restrict) -> Plan {
    let mut rng = Rng::new(seed);
    let rng = &mut rng;
    let (arm, flavour, bits, config) = loop {
        let arm = match restrict.codec {
            Some(c) => arms::arm_by_name(c).expect("unknown codec"),
            None => pick_arm(rng),
        };
        let flavour = rng.below(arm.flavours as usize) as u32;
        let bits = restrict.bits.unwrap_or_else(|| *rng.pick(WIDTHS));
        let config = *rng.pick(allowed);
        if !(arm.supports)(bits, flavour) {
            continue;
        }
        if (arm.seamless)(flavour) && config != Config::Control {
            if allowed.contains(&Config::Control) {
                break (arm, flavour, bits, Config::Control);
            }
            continue;
        }
        break (arm, flavour, bits, config);
    };
    let mut p = Plan::new("pipeline", arm.name, bits, config);
    p.seed = seed;
    p.flavour = flavour;
    let n = *rng.pick(&[1usize, 1, 1, 1, 2, 2, 3, 4]);
    p.records = (0..n).map(|_| gen_value(rng, bits)).collect();
    // codec-specific knobs
    match arm.name {
        "postgres" => {
            let t = rng.below(arms::postgres::TYPES.len()) as u64;
            p.aux = vec![t, t];
        }
        "serde-sim" => p.aux = vec![0, 0, 0, 0, 0],
        "convert" => p.aux = vec![0],
        _ => {}
    }
    if config == Config::Control {
        return p;
    }

    // ------------------------------------------------------------ benign faults
    let io_w = (arm.io_writer)(&p);
    let io_r = (arm.io_reader)(&p);
    if io_w {
        p.write.chunks = gen_chunks(rng);
        p.write.eintr = gen_eintr(rng);
    }
    if rng.chance(1, 3) {
        let n = rng.range(1, 8);
        p.write.prefill = rng.bytes(n);
    }
    if io_r {
        p.read.chunks = gen_chunks(rng);
        p.read.eintr = gen_eintr(rng);
    }
    if (arm.scale_input)(&p) {
        p.read.remaining_len = rng.below(3) as u8;
    }
    if arm.name == "serde-sim" {
        p.aux[1] = rng.below(3) as u64;
    }
    if config == Config::Benign {
        return p;
    }

    // ------------------------------------------------------------ destructive faults
    let framing = (arm.framing)(&p);
    let ops: Vec<Vec<Num>> = match framing {
        Framing::Container => vec![p.records.clone()],
        _ => p.records.iter().map(|v| vec![v.clone()]).collect(),
    };
    let lens: Vec<usize> = ops.iter().map(|o| (arm.ref_enc)(&p, o).len()).collect();
    let total: usize = lens.iter().sum::<usize>().max(1);
    let starts: Vec<usize> = lens.iter().scan(0, |s, l| {
        let x = *s;
        *s += l;
        Some(x)
    }).collect();
    // an offset biased towards the interesting places of a random record
    let pos = |rng: &mut Rng| -> usize {
        let r = rng.below(lens.len());
        let (s, l) = (starts[r], lens[r].max(1));
        match rng.below(10) {
            0..=3 => s + rng.below(l.min(3)),              // tag / header / length
            4 => s + l - 1,                                  // last byte
            5 => s + l.min(9).saturating_sub(1),             // after a typical header (top payload byte)
            6 => s + rng.below(l.min(12)),
            _ => s + rng.below(l),
        }
        .min(total - 1)
    };
    // a 2-/4-byte field boundary near the start of a record
    let field_pos = |rng: &mut Rng| -> usize {
        let r = rng.below(lens.len());
        let (s, l) = (starts[r], lens[r].max(1));
        (s + 2 * rng.below(6).min(l / 2)).min(total - 1)
    };
    let nfaults = *rng.pick(&[1usize, 1, 1, 1, 1, 1, 1, 1, 2, 2, 3]);
    // swarm: each run enables a random subset of the fault kinds
    let mask = rng.next() | rng.next();
    let mut tries = 0;
    let mut placed = 0;
    while placed < nfaults && tries < 40 {
        tries += 1;
        let kind = rng.below(19);
        if mask & (1 << kind) == 0 {
            continue;
        }
        match kind {
            0 if (arm.writer_fallible)(&p) => {
                if arm.name == "serde-sim" {
                    p.write.err_at = Some(0);
                } else {
                    p.write.err_at = Some(rng.below(total));
                }
            }
            1 | 2 => p.medium.push(MFault::Trunc { at: pos(rng) }),
            3 | 4 | 5 => p.medium.push(MFault::Flip { at: pos(rng), bit: rng.below(8) as u8 }),
            6 => {
                let byte = match rng.below(3) {
                    0 => *rng.pick(&[0x00u8, 0xff, 0x80, 0x7f, 0x81, 0xb7, 0xb8, 0xc0, 0xc1, 0xf8, 0x02, 0x30, 0x22, 0x5c]),
                    _ => rng.byte(),
                };
                p.medium.push(MFault::Sub { at: pos(rng), byte });
            }
            7 => p.medium.push(MFault::Zero { at: pos(rng), len: rng.range(1, 8) }),
            8 => p.medium.push(MFault::Dup { at: pos(rng), len: rng.range(1, 4) }),
            9 => {
                let bytes = if rng.chance(1, 2) {
                    let v = gen_value(rng, bits);
                    let one = if framing == Framing::Container { p.records.clone() } else { vec![v] };
                    let mut b = (arm.ref_enc)(&p, &one);
                    b.truncate(nbytes(bits) + 16);
                    b
                } else {
                    {
                        let n = rng.range(1, 16);
                        rng.bytes(n)
                    }
                };
                p.medium.push(MFault::Tail { bytes });
            }
            10 => {
                if rng.chance(1, 2) {
                    p.medium.push(MFault::Pad0 { rec: rng.below(p.records.len()) });
                } else {
                    let bytes: Vec<u8> = match rng.below(8) {
                        0 => vec![0x7f, 0xff],
                        1 => vec![0xff, 0xff],
                        2 => vec![0x80, 0x00],
                        3 => vec![0x7f, 0xff, 0xff, 0xff],
                        4 => vec![0xff, 0xff, 0xff, 0xff],
                        5 => vec![0x80, 0x00, 0x00, 0x00],
                        6 => vec![0x00, 0x00],
                        _ => {
                            let n = *rng.pick(&[2usize, 4, 8]);
                            rng.bytes(n)
                        }
                    };
                    p.medium.push(MFault::Field { at: field_pos(rng), bytes });
                }
            }
            16 => {
                // the record reads back as unrelated bytes: pure noise, or a plausible first byte
                // (taken from the reference encoding) followed by noise
                let rec = rng.below(lens.len());
                let n = rng.below(nbytes(bits) + 17);
                let mut bytes = rng.bytes(n);
                if !bytes.is_empty() && rng.chance(1, 2) {
                    let one = if framing == Framing::Container { p.records.clone() } else { vec![p.records[rec].clone()] };
                    let r = (arm.ref_enc)(&p, &one);
                    for (i, b) in r.iter().take(rng.below(4)).enumerate() {
                        if i < bytes.len() {
                            bytes[i] = *b;
                        }
                    }
                }
                p.medium.push(MFault::Garbage { rec, bytes, forged: false });
            }
            17 | 18 => {
                let rec = rng.below(lens.len());
                match crate::forge::forge(&p, rng) {
                    Some(bytes) => p.medium.push(MFault::Garbage { rec, bytes, forged: true }),
                    None => continue,
                }
            }
            11 if io_r || (arm.scale_input)(&p) => {
                let kind = if rng.chance(1, 2) { CutKind::Err } else { CutKind::Eof };
                p.read.cut = Some((pos(rng), kind));
            }
            12 if (arm.scale_input)(&p) => {
                if rng.chance(1, 2) {
                    p.read.alloc_budget = Some(rng.below(16));
                } else {
                    p.read.remaining_len = 3;
                }
            }
            13 if arm.name == "serde-sim" => match rng.below(3) {
                0 => p.aux[0] = 1,
                _ => {
                    p.aux[2] = rng.range(1, 12) as u64;
                    p.aux[3] = match rng.below(4) {
                        0 => rng.below(300) as u64,
                        1 => u64::MAX,
                        2 => (1u64 << rng.below(64)).wrapping_sub(rng.below(2) as u64),
                        _ => rng.next(),
                    };
                    p.aux[4] = if rng.chance(1, 2) { 0 } else { rng.next() };
                }
            },
            14 if arm.name == "postgres" => {
                p.aux[1] = rng.below(arms::postgres::TYPES.len()) as u64;
            }
            15 if arm.name == "convert" && p.flavour == 1 => p.aux[0] = 1,
            _ => continue,
        }
        placed += 1;
    }
    if placed == 0 {
        p.medium.push(MFault::Flip { at: pos(rng), bit: rng.below(8) as u8 });
    }
    p
}

/// A pipeline run whose only destructive fault is a write error at a random byte (W-ERR / S-ERR),
/// on top of benign chunking, for the arms whose writer seam can fail.
pub fn gen_write_err(seed: u64, restrict: &Restrict) -> Plan {
    let mut s = seed;
    loop {
        let mut p = gen_pipeline(s, &[Config::Benign], restrict);
        let arm = arms::arm_by_name(&p.codec).unwrap();
        if (arm.writer_fallible)(&p) {
            let mut rng = Rng::new(seed ^ 0x57E1_1E44);
            p.config = Config::Destructive;
            p.seed = seed;
            let framing = (arm.framing)(&p);
            let ops: Vec<Vec<Num>> = match framing {
                Framing::Container => vec![p.records.clone()],
                _ => p.records.iter().map(|v| vec![v.clone()]).collect(),
            };
            let total: usize = ops.iter().map(|o| (arm.ref_enc)(&p, o).len()).sum::<usize>().max(1);
            p.write.err_at = Some(if arm.name == "serde-sim" { 0 } else { rng.below(total) });
            return p;
        }
        if restrict.codec.is_some() {
            // the requested arm has no fallible writer: fall back to a benign run
            return p;
        }
        s = s.wrapping_mul(6364136223846793005).wrapping_add(1442695040888963407);
    }
}

// ===================================================================== history arm

/// A client program: 1-3 values that arrive through a decoder, then up to 8 public operations.
pub fn gen_history(seed: u64, restrict: &Restrict) -> Plan {
    let mut rng = Rng::new(seed);
    let rng = &mut rng;
    let bits = restrict.bits.unwrap_or_else(|| *rng.pick(WIDTHS));
    let mut p = Plan::new("history", "ops", bits, Config::Control);
    p.seed = seed;
    let n = rng.range(1, 3);
    p.records = (0..n).map(|_| gen_value(rng, bits)).collect();
    let steps = rng.range(1, 8);
    for _ in 0..steps {
        let op = rng.below(crate::history::NOPS as usize) as u64;
        let k = match rng.below(6) {
            0 => *rng.pick(&[0u64, 1, 2, 7, 8, 63, 64, 65, 127, 128]),
            1 => (bits as u64).wrapping_add(*rng.pick(&[0u64, 1, 2])).wrapping_sub(1),
            2 => 2 * bits as u64 + rng.below(3) as u64,
            3 => u64::MAX - rng.below(3) as u64,
            _ => rng.next(),
        };
        p.aux.extend([op, rng.below(8) as u64, rng.below(8) as u64, k]);
    }
    p
}

// ===================================================================== exhaustive sub-spaces

pub use crate::widths::SMALL_WIDTHS;

/// (arm, flavour, postgres type or 0, bits) for every supported combination at the small widths.
fn small_combos() -> &'static Vec<(&'static ArmInfo, u32, u64, usize)> {
    static C: std::sync::OnceLock<Vec<(&'static ArmInfo, u32, u64, usize)>> = std::sync::OnceLock::new();
    C.get_or_init(|| {
        let mut v = vec![];
        for arm in arms::ARMS {
            for flavour in 0..arm.flavours {
                for &bits in SMALL_WIDTHS {
                    if !(arm.supports)(bits, flavour) {
                        continue;
                    }
                    let types = if arm.name == "postgres" { arms::postgres::TYPES.len() as u64 } else { 1 };
                    for t in 0..types {
                        v.push((arm, flavour, t, bits));
                    }
                }
            }
        }
        v
    })
}

fn combo_plan(arm: &ArmInfo, flavour: u32, t: u64, bits: usize, config: Config) -> Plan {
    let mut p = Plan::new("pipeline", arm.name, bits, config);
    p.flavour = flavour;
    match arm.name {
        "postgres" => p.aux = vec![t, t],
        "serde-sim" => p.aux = vec![0, 0, 0, 0, 0],
        "convert" => p.aux = vec![0],
        _ => {}
    }
    p
}

/// Number of points of the "every value of every small width through every arm" space.
pub fn small_values_len() -> u64 {
    small_combos().iter().map(|c| 1u64 << c.3).sum()
}

/// Point `index` of that space: one fault-free run with one record.
pub fn small_value_plan(index: u64) -> Option<Plan> {
    let mut i = index;
    for (arm, flavour, t, bits) in small_combos() {
        let n = 1u64 << bits;
        if i < n {
            let mut p = combo_plan(arm, *flavour, *t, *bits, Config::Control);
            p.seed = index;
            p.records = vec![num::from_u128(u128::from(i))];
            if (arm.framing)(&p) == Framing::Container {
                // a second, fixed item so that container framing is exercised too
                p.records.push(num::max_value(*bits));
            }
            return Some(p);
        }
        i -= n;
    }
    None
}

/// Number of points of the "every input of at most `max_len` bytes to every decoder at the small
/// widths" space.
pub fn short_inputs_len(max_len: usize) -> u64 {
    let per: u64 = (0..=max_len).map(|l| 256u64.pow(l as u32)).sum();
    small_combos().iter().filter(|c| !(c.0.seamless)(c.1)).count() as u64 * per
}

/// Point `index` of that space: the (single) record reads back as the given bytes.
pub fn short_input_plan(index: u64, max_len: usize) -> Option<Plan> {
    let per: u64 = (0..=max_len).map(|l| 256u64.pow(l as u32)).sum();
    let combos: Vec<_> = small_combos().iter().filter(|c| !(c.0.seamless)(c.1)).collect();
    let (c, mut k) = (combos.get((index / per) as usize)?, index % per);
    let mut len = 0usize;
    while k >= 256u64.pow(len as u32) {
        k -= 256u64.pow(len as u32);
        len += 1;
    }
    let bytes: Vec<u8> = (0..len).map(|j| (k >> (8 * j)) as u8).collect();
    let mut p = combo_plan(c.0, c.1, c.2, c.3, Config::Destructive);
    p.seed = index;
    p.records = vec![vec![]];
    p.medium.push(MFault::Garbage { rec: 0, bytes, forged: false });
    Some(p)
}

// ===================================================================== text arm

// incl. non-ASCII characters whose code point modulo 256 is an ASCII digit, letter or '_'
// (U+0131 -> '1', U+0661 -> 'a', U+0141 -> 'A', U+015F -> '_', U+0130 -> '0', U+0178 -> 'x', U+FF11 fullwidth '1')
const NASTY: &[&str] = &[
    "g", "z", "G", "Z", "_", "-", "+", " ", "é", "€", "𝟘", "\0", "x", "X", "o", "b", "/", ",", "=", "\n", "f", "F", "9", "0", "ı", "١", "Ł", "ş", "İ", "Ÿ", "１", "ａ",
];

fn to_radix(v: &Num, radix: u32) -> String {
    num::to_biguint(v).to_str_radix(radix)
}

pub fn gen_text(seed: u64, restrict: &Restrict) -> Plan {
    let mut rng = Rng::new(seed);
    let rng = &mut rng;
    let bits = restrict.bits.unwrap_or_else(|| *rng.pick(WIDTHS));
    let codecs = ["from_str", "from_str", "bits_from_str", "from_str_radix", "from_str_radix", "from_base_be", "from_base_le"];
    let codec = match restrict.codec {
        Some(c) => c,
        None => *rng.pick(&codecs),
    };
    let mut p = Plan::new("text", codec, bits, Config::Destructive);
    p.seed = seed;
    let mut v = gen_value(rng, bits);
    if rng.chance(1, 12) {
        v = num::add_small(&num::pow2(bits), rng.below(2) as i64); // exactly 2^BITS (+1): overflow by one
        p.notes.push("T-OVER".into());
    }
    p.records = vec![];
    match codec {
        "from_str" | "bits_from_str" => {
            let style = rng.below(6);
            let mut s = match style {
                0 => format!("0x{}", to_radix(&v, 16)),
                1 => format!("0X{}", to_radix(&v, 16).to_uppercase()),
                2 => to_radix(&v, 10),
                3 => format!("0o{}", to_radix(&v, 8)),
                4 => format!("0b{}", to_radix(&v, 2)),
                _ => format!("0x{}", num::hex(&num::be_padded(&num::trim_be(&v), nbytes(bits).max(v.len())))),
            };
            text_faults(rng, &mut s, &mut p.notes);
            p.text = s.into_bytes();
        }
        "from_str_radix" => {
            let r1 = match rng.below(4) {
                0 => *rng.pick(&[2u64, 8, 10, 16, 36]),
                1 => rng.range(2, 36) as u64,
                2 => rng.range(37, 64) as u64,
                _ => *rng.pick(&[36u64, 37, 64]),
            };
            let mut s = if r1 <= 36 {
                let t = to_radix(&v, r1 as u32);
                if rng.chance(1, 3) { t.to_uppercase() } else { t }
            } else {
                // digits from the documented base-64 alphabet, as many as roughly fit
                let alphabet: Vec<char> = "ABCDEFGHIJKLMNOPQRSTUVWXYZabcdefghijklmnopqrstuvwxyz0123456789+/-_,=".chars().collect();
                let n = rng.range(0, bits / 6 + 2);
                (0..n).map(|_| *rng.pick(&alphabet)).collect()
            };
            let mut r2 = r1;
            if rng.chance(1, 5) {
                r2 = match rng.below(3) {
                    0 => *rng.pick(&[0u64, 1, 65, 66, u64::MAX, 1 << 32]),
                    _ => rng.below(66) as u64,
                };
                p.notes.push("T-RADIX".into());
            }
            text_faults(rng, &mut s, &mut p.notes);
            p.text = s.into_bytes();
            p.aux = vec![r2];
        }
        _ => {
            let mut base = match rng.below(4) {
                0 => *rng.pick(&[2u64, 3, 10, 16, 256, 10000]),
                1 => *rng.pick(&[1u64 << 32, 1 << 63, u64::MAX, (1 << 32) + 1, u64::MAX - 1]),
                2 => rng.range(2, 70) as u64,
                _ => rng.next().max(2),
            };
            // digits of v in that base, most significant first
            let mut digits: Vec<u64> = vec![];
            {
                use num_bigint::BigUint;
                let mut x = num::to_biguint(&v);
                let b = BigUint::from(base);
                let zero = BigUint::from(0u8);
                while x > zero {
                    digits.push((&x % &b).to_u64_digits().first().copied().unwrap_or(0));
                    x /= &b;
                }
                digits.reverse();
            }
            for _ in 0..*rng.pick(&[0usize, 0, 1, 1, 2]) {
                match rng.below(5) {
                    0 if !digits.is_empty() => {
                        let i = rng.below(digits.len());
                        digits.remove(i);
                        p.notes.push("G-DROP".into());
                    }
                    1 if !digits.is_empty() => {
                        let i = rng.below(digits.len());
                        digits[i] = match rng.below(3) {
                            0 => base,
                            1 => u64::MAX,
                            _ => base.saturating_add(rng.below(3) as u64),
                        };
                        p.notes.push("G-CORRUPT".into());
                    }
                    2 => {
                        // leading (most significant) extra digits: zeros are harmless, non-zero overflows
                        let d = if rng.chance(1, 2) { 0 } else { 1 + rng.below(3) as u64 % base.max(2) };
                        for _ in 0..rng.range(1, 3) {
                            digits.insert(0, d);
                        }
                        p.notes.push("G-APPEND".into());
                    }
                    3 => {
                        base = *rng.pick(&[0u64, 1]);
                        p.notes.push("G-BASE".into());
                    }
                    _ => {
                        digits.push(rng.below(3) as u64);
                        p.notes.push("G-APPEND".into());
                    }
                }
            }
            if codec == "from_base_le" {
                digits.reverse();
            }
            if p.notes.is_empty() {
                p.notes.push("G-NONE".into());
            }
            p.aux = std::iter::once(base).chain(digits).collect();
        }
    }
    if p.notes.is_empty() {
        p.notes.push("T-NONE".into());
    }
    p
}

fn text_faults(rng: &mut Rng, s: &mut String, notes: &mut Vec<String>) {
    for _ in 0..*rng.pick(&[0usize, 1, 1, 1, 2, 2, 3]) {
        let chars: Vec<char> = s.chars().collect();
        let n = chars.len();
        match rng.below(9) {
            0 => {
                let k = rng.below(n + 1);
                *s = chars[..k].iter().collect();
                notes.push("T-TRUNC".into());
            }
            1 if n > 0 => {
                let k = rng.below(n);
                let c = rng.pick(NASTY);
                *s = chars[..k].iter().collect::<String>() + c + &chars[k + 1..].iter().collect::<String>();
                notes.push("T-SUB".into());
            }
            2 => {
                let k = rng.below(n + 1);
                let c = rng.pick(NASTY);
                *s = chars[..k].iter().collect::<String>() + c + &chars[k..].iter().collect::<String>();
                notes.push("T-INS".into());
            }
            3 => {
                // a multi-byte char placed so that byte index 2 is not a char boundary
                let k = rng.below(2.min(n) + 1);
                let c = rng.pick(&["é", "€", "𝟘"]);
                *s = chars[..k].iter().collect::<String>() + c + &chars[k..].iter().collect::<String>();
                notes.push("T-MULTIBYTE".into());
            }
            4 => {
                let k = rng.below(n + 1);
                *s = chars[..k].iter().collect::<String>() + "_" + &chars[k..].iter().collect::<String>();
                notes.push("T-UNDERSCORE".into());
            }
            5 => {
                *s = chars.iter().map(|c| if c.is_ascii_lowercase() { c.to_ascii_uppercase() } else { c.to_ascii_lowercase() }).collect();
                notes.push("T-CASE".into());
            }
            6 if n >= 2 => {
                let pre = rng.pick(&["0x", "0X", "0o", "0O", "0b", "0B", "00", "0_", "x0", "0"]);
                *s = pre.to_string() + &chars[2..].iter().collect::<String>();
                notes.push("T-PREFIX".into());
            }
            7 => {
                // a character from another plane / block whose low byte is an ASCII digit, letter or '_'
                let low = *rng.pick(&[b'0', b'1', b'7', b'9', b'a', b'f', b'A', b'F', b'x', b'z', b'_', b'b', b'o']);
                let hi = rng.range(1, 0x10f) as u32;
                let cp = (hi << 8) | u32::from(low);
                if let Some(c) = char::from_u32(cp) {
                    let k = rng.below(n + 1);
                    let sub = rng.chance(1, 2) && k < n;
                    *s = chars[..k].iter().collect::<String>() + &c.to_string() + &chars[k + usize::from(sub)..].iter().collect::<String>();
                    notes.push("T-WIDECHAR".into());
                }
            }
            _ => {
                let k = rng.below(n + 1);
                let d = rng.pick(&["0", "1", "9", "f", "7"]);
                *s = chars[..k].iter().collect::<String>() + d + &chars[k..].iter().collect::<String>();
                notes.push("T-DIGIT".into());
            }
        }
    }
}

// ===================================================================== entropy arm

pub fn gen_entropy(seed: u64, restrict: &Restrict) -> Plan {
    let mut rng = Rng::new(seed);
    let rng = &mut rng;
    let bits = restrict.bits.unwrap_or_else(|| *rng.pick(WIDTHS));
    let codec = match restrict.codec {
        Some(c) => c,
        None => loop {
            let c = *rng.pick(crate::entropy::CODECS);
            if !cfg!(feature = "r09") && c == "rand09-sample" {
                continue;
            }
            break c;
        },
    };
    let mut p = Plan::new("entropy", codec, bits, Config::Destructive);
    p.seed = seed;
    let nl = num::nlimbs(bits);
    let len = nl * 8 + 40;
    let (class, stream): (&str, Vec<u8>) = match rng.below(7) {
        0 => ("ones", vec![0xff; len]),
        1 => ("zeros", vec![0x00; len]),
        2 => ("alt", (0..len).map(|i| if i % 2 == 0 { 0xaa } else { 0x55 }).collect()),
        3 => {
            let mut v = vec![0u8; len];
            let b = rng.below(len * 8);
            v[b / 8] |= 1 << (b % 8);
            ("onebit", v)
        }
        4 => {
            // everything set in the top limb region only
            let mut v = vec![0u8; len];
            let lo = nl.saturating_sub(1) * 8;
            for x in v.iter_mut().skip(lo).take(8) {
                *x = 0xff;
            }
            ("toplimb", v)
        }
        _ => ("prng", rng.bytes(len)),
    };
    p.entropy.class = class.into();
    p.entropy.stream = stream;
    p.entropy.gen_seed = rng.next();
    p.entropy.prior = match rng.below(3) {
        0 => num::max_value(bits),
        1 => vec![],
        _ => gen_value(rng, bits),
    };
    p.notes.push("E-STREAM".into());
    match codec {
        "rand08-sample" | "rand09-sample" | "random_with" | "randomize_with" => {
            if rng.chance(1, 2) {
                let k = match rng.below(3) {
                    0 => rng.range(nl.saturating_sub(1) * 8, nl * 8), // inside / right after the top limb
                    1 => rng.below(nl * 8 + 1),
                    _ => nl * 8,
                };
                p.entropy.fail_at = Some(k);
                p.notes.push("E-FAIL".into());
            }
        }
        "arbitrary" | "arbitrary-take-rest" => {
            if rng.chance(2, 3) {
                p.entropy.dry_at = Some(rng.below(2 * nbytes(bits) + 3));
                p.notes.push("E-DRY".into());
            }
        }
        "quickcheck" => p.aux = vec![rng.below(512) as u64],
        _ => {
            p.aux = vec![rng.below(2) as u64];
            let n = rng.below(24);
            p.entropy.walk = rng.bytes(n);
        }
    }
    p
}
