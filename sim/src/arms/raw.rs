//! The byte-slice parsers every binary decoder bottoms out in (C17 observe point; C08's
//! decoder-totality clause). Externally framed.
//! flavours: 0 BE full (`to_be_bytes_vec` / `try_from_be_slice`); 1 LE full (`as_le_bytes`);
//! 2 BE trimmed; 3 LE trimmed.

use super::*;
use crate::num::{self, nbytes};
use ruint::Uint;

pub const FLAVOURS: u32 = 4;
pub const STRICT: bool = false;
pub use super::never_refuse as may_refuse;
pub use super::no as lossy;
pub use super::has_seam as seamless_flavour;
pub const SEAMLESS: bool = false;

pub fn supports(_bits: usize, _flavour: u32) -> bool {
    true
}
pub fn framing(_p: &Plan) -> Framing {
    Framing::Message
}
pub use super::no as io_writer;
pub use super::no as writer_fallible;
pub use super::no as io_reader;
pub use super::no as scale_input;
pub use super::no_pad0 as pad0;

pub fn ref_enc(p: &Plan, vals: &[Num]) -> Vec<u8> {
    let v = &vals[0];
    match p.flavour {
        0 => num::be_padded(v, nbytes(p.bits)),
        1 => num::le_padded(v, nbytes(p.bits)),
        2 => v.clone(),
        _ => v.iter().rev().copied().collect(),
    }
}

pub fn ref_dec(p: &Plan, offered: &[u8]) -> RefDec {
    if offered.len() > nbytes(p.bits) {
        return RefDec::Invalid("slice longer than BYTES");
    }
    let v = if p.flavour % 2 == 0 { num::trim_be(offered) } else { num::from_le(offered) };
    if num::fits(&v, p.bits) {
        RefDec::Value(vec![v], None)
    } else {
        RefDec::Invalid("value >= 2^BITS")
    }
}

pub fn encode<const B: usize, const L: usize>(ws: &mut WriteSeam, p: &Plan, vals: &[Num]) -> EncResult {
    let u: Uint<B, L> = num::to_uint(&vals[0]);
    let v = match p.flavour {
        0 => u.to_be_bytes_vec(),
        1 => u.as_le_bytes().to_vec(),
        2 => u.to_be_bytes_trimmed_vec(),
        _ => u.to_le_bytes_trimmed_vec(),
    };
    ws.append(&v);
    Ok(())
}

pub fn decode<const B: usize, const L: usize>(rs: &mut ReadSeam, p: &Plan) -> DecResult {
    rs.note_cut_for_slice();
    let s = rs.rest();
    let u = if p.flavour % 2 == 0 { Uint::<B, L>::try_from_be_slice(s) } else { Uint::<B, L>::try_from_le_slice(s) };
    let u = u.ok_or_else(|| "None".to_string())?;
    rs.advance(s.len());
    let n = rs.ctx.observe("try_from_slice", &u);
    Ok((vec![n], None))
}
