//! The monomorphised width set (const generics cannot be chosen at run time).
//!
//! Shape classes (DESIGN §2.5): zero; sub-byte; byte-aligned non-limb; `BYTES % 8 == 0 &&
//! BITS % 64 != 0` (60, 63, 121, 127, 250, 255: whole-limb decode fast path with a non-trivial
//! mask); limb-aligned; RLP 55/56-byte boundary (440/441/448); SCALE compact limit (535/536);
//! DER length-form boundaries (1024, 2048). BITS % 8 covers every residue 0..=7
//! (2, 3, 12, 13, 30, 31, ...).

pub const WIDTHS: &[usize] = &[
    0, 1, 2, 3, 7, 8, 12, 13, 16, 30, 31, 32, 33, 60, 63, 64, 65, 72, 100, 121, 127, 128, 129, 160,
    192, 200, 250, 255, 256, 257, 320, 384, 440, 441, 448, 512, 520, 535, 536, 768, 1024, 2048,
    4096,
];

/// Width class index used in coverage signatures.
pub fn width_class(bits: usize) -> u8 {
    let bytes = (bits + 7) / 8;
    if bits == 0 {
        0
    } else if bits < 8 {
        1
    } else if bits % 64 == 0 {
        2
    } else if bytes % 8 == 0 {
        3 // whole-limb byte length, partial top-limb mask
    } else if bits % 8 == 0 {
        4
    } else {
        5
    }
}

/// `for_width!(bits, func(args...))` calls `func::<BITS, LIMBS>(args...)`.
#[macro_export]
macro_rules! for_width {
    ($bits:expr, $f:ident ( $($a:expr),* $(,)? )) => {
        match $bits {
            0 => $f::<0, 0>($($a),*),
            1 => $f::<1, 1>($($a),*),
            2 => $f::<2, 1>($($a),*),
            3 => $f::<3, 1>($($a),*),
            7 => $f::<7, 1>($($a),*),
            8 => $f::<8, 1>($($a),*),
            12 => $f::<12, 1>($($a),*),
            13 => $f::<13, 1>($($a),*),
            16 => $f::<16, 1>($($a),*),
            30 => $f::<30, 1>($($a),*),
            31 => $f::<31, 1>($($a),*),
            32 => $f::<32, 1>($($a),*),
            33 => $f::<33, 1>($($a),*),
            60 => $f::<60, 1>($($a),*),
            63 => $f::<63, 1>($($a),*),
            64 => $f::<64, 1>($($a),*),
            65 => $f::<65, 2>($($a),*),
            72 => $f::<72, 2>($($a),*),
            100 => $f::<100, 2>($($a),*),
            121 => $f::<121, 2>($($a),*),
            127 => $f::<127, 2>($($a),*),
            128 => $f::<128, 2>($($a),*),
            129 => $f::<129, 3>($($a),*),
            160 => $f::<160, 3>($($a),*),
            192 => $f::<192, 3>($($a),*),
            200 => $f::<200, 4>($($a),*),
            250 => $f::<250, 4>($($a),*),
            255 => $f::<255, 4>($($a),*),
            256 => $f::<256, 4>($($a),*),
            257 => $f::<257, 5>($($a),*),
            320 => $f::<320, 5>($($a),*),
            384 => $f::<384, 6>($($a),*),
            440 => $f::<440, 7>($($a),*),
            441 => $f::<441, 7>($($a),*),
            448 => $f::<448, 7>($($a),*),
            512 => $f::<512, 8>($($a),*),
            520 => $f::<520, 9>($($a),*),
            535 => $f::<535, 9>($($a),*),
            536 => $f::<536, 9>($($a),*),
            768 => $f::<768, 12>($($a),*),
            1024 => $f::<1024, 16>($($a),*),
            2048 => $f::<2048, 32>($($a),*),
            4096 => $f::<4096, 64>($($a),*),
            other => panic!("width {other} is not monomorphised"),
        }
    };
}
