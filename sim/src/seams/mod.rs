//! Seam stubs owned by the simulator. Everything ruint reads from or writes to in a run is one
//! of these (or a real third-party container chosen by the simulator).
pub mod io;
pub mod scale;
pub mod entropy;
pub mod serde_sim;
