//! Reference RLP (written from the Ethereum yellow-paper definition), independent of every RLP
//! crate and of ruint.

use super::TRUNCATED;
use crate::num::{self, Num};

pub fn header(len: usize, list: bool) -> Vec<u8> {
    let (short, long) = if list { (0xc0u8, 0xf7u8) } else { (0x80u8, 0xb7u8) };
    if len <= 55 {
        vec![short + len as u8]
    } else {
        let be = num::trim_be(&(len as u64).to_be_bytes());
        let mut out = vec![long + be.len() as u8];
        out.extend(be);
        out
    }
}

pub fn enc_string(payload: &[u8]) -> Vec<u8> {
    if payload.len() == 1 && payload[0] < 0x80 {
        return payload.to_vec();
    }
    let mut out = header(payload.len(), false);
    out.extend_from_slice(payload);
    out
}

/// Canonical RLP of a non-negative integer: minimal big-endian string.
pub fn enc_uint(v: &Num) -> Vec<u8> {
    enc_string(v)
}

pub fn enc_list(items: &[Vec<u8>]) -> Vec<u8> {
    let total: usize = items.iter().map(Vec::len).sum();
    let mut out = header(total, true);
    for i in items {
        out.extend_from_slice(i);
    }
    out
}

pub struct Item {
    pub list: bool,
    pub payload_start: usize,
    pub payload_len: usize,
    /// header is in canonical form (minimal length-of-length, no 0x81 xx<0x80, long form >= 56)
    pub canonical: bool,
}

impl Item {
    pub fn total(&self) -> usize {
        self.payload_start + self.payload_len
    }
}

/// Parse one RLP item header. `Err(TRUNCATED)` when the buffer ends inside the item.
pub fn parse(b: &[u8]) -> Result<Item, &'static str> {
    let Some(&b0) = b.first() else { return Err(TRUNCATED) };
    let (list, short_base, long_base) = if b0 >= 0xc0 { (true, 0xc0u8, 0xf7u8) } else { (false, 0x80u8, 0xb7u8) };
    let it = if b0 < 0x80 {
        Item { list: false, payload_start: 0, payload_len: 1, canonical: true }
    } else if b0 <= long_base {
        let len = (b0 - short_base) as usize;
        if b.len() < 1 + len {
            return Err(TRUNCATED);
        }
        let canonical = list || !(len == 1 && b[1] < 0x80);
        Item { list, payload_start: 1, payload_len: len, canonical }
    } else {
        let ll = (b0 - long_base) as usize;
        if b.len() < 1 + ll {
            return Err(TRUNCATED);
        }
        let lb = &b[1..1 + ll];
        let mut len: u64 = 0;
        for &x in lb {
            len = (len << 8) | u64::from(x);
        }
        let canonical = lb[0] != 0 && len >= 56;
        let avail = (b.len() - 1 - ll) as u64;
        if len > avail {
            return Err(TRUNCATED);
        }
        Item { list, payload_start: 1 + ll, payload_len: len as usize, canonical }
    };
    Ok(it)
}

/// Strict integer decoding (alloy-rlp / fastrlp contract). Ok((value, consumed)).
pub fn dec_uint_strict(bits: usize, b: &[u8]) -> Result<(Num, usize), &'static str> {
    let it = parse(b)?;
    if it.list {
        return Err("list where a string is expected");
    }
    if !it.canonical {
        return Err("non-canonical header");
    }
    let p = &b[it.payload_start..it.total()];
    if p.first() == Some(&0) {
        return Err("leading zero");
    }
    if p.len() > num::nbytes(bits) {
        return Err("payload longer than BYTES");
    }
    let v = p.to_vec();
    if !num::fits(&v, bits) {
        return Err("value >= 2^BITS");
    }
    Ok((v, it.total()))
}

#[cfg(test)]
mod tests {
    use super::*;
    #[test]
    fn rlp_ref() {
        assert_eq!(enc_uint(&vec![]), vec![0x80]);
        assert_eq!(enc_uint(&vec![0x7f]), vec![0x7f]);
        assert_eq!(enc_uint(&vec![0x80]), vec![0x81, 0x80]);
        let big = vec![1u8; 56];
        let e = enc_uint(&big);
        assert_eq!(&e[..2], &[0xb8, 56]);
        assert_eq!(dec_uint_strict(448, &e), Ok((big, 58)));
        assert_eq!(dec_uint_strict(8, &[0x81, 0x7f]), Err("non-canonical header"));
        assert_eq!(dec_uint_strict(8, &[0x81]), Err(TRUNCATED));
        assert_eq!(dec_uint_strict(8, &[0x82, 0, 1]), Err("leading zero"));
        assert_eq!(dec_uint_strict(8, &[0xb8, 3, 1, 2, 3]), Err("non-canonical header"));
    }
}
