//! Single-fault sweep (C17, level fault_enumeration): for one sampled (codec, flavour, width,
//! record) enumerate EVERY truncation offset, EVERY read-cut offset (error and EOF), EVERY
//! write-error offset and EVERY single-bit flip of the encoding (all bits when the encoding is at
//! most 128 bytes long; otherwise every bit of the first 4 and last 16 bytes and of the first 16
//! payload bytes, plus 64 seeded interior bits), and EVERY value (0..=255) of each of the first
//! two bytes (tag / header / length bytes); for textual records additionally every position x a set of
//! parser-hostile characters, substituted and inserted.

use crate::arms::{self, Framing};
use crate::gen::{self, Restrict};
use crate::num::Num;
use crate::plan::{Config, CutKind, MFault, Plan};
use crate::prng::Rng;

pub struct SweepSet {
    pub base: Plan,
    pub plans: Vec<Plan>,
    pub exhaustive_bits: bool,
    pub enc_len: usize,
}

pub fn sweep_plans(seed: u64, restrict: &Restrict) -> SweepSet {
    // a fault-free single-record plan; its benign knobs are kept off so that each point differs
    // from the control run by exactly one fault
    let mut base = gen::gen_pipeline(seed, &[Config::Control], restrict);
    let mut rng = Rng::new(seed ^ 0x5EED_5EED);
    let arm = arms::arm_by_name(&base.codec).unwrap();
    // value conversions without a seam have nothing to sweep; re-draw deterministically
    let mut s = seed;
    // (the sweep is quadratic in the encoding length: the giant width of the second set is left to the seeded stages)
    while (arm_of(&base).seamless)(base.flavour) || base.bits > 5000 {
        s = s.wrapping_mul(6364136223846793005).wrapping_add(1442695040888963407);
        base = gen::gen_pipeline(s, &[Config::Control], restrict);
    }
    let arm = if arm.name == base.codec { arm } else { arm_of(&base) };
    if (arm.framing)(&base) != Framing::Container {
        base.records.truncate(1);
    } else {
        base.records.truncate(2);
    }
    base.config = Config::Destructive;
    let ops: Vec<Vec<Num>> = match (arm.framing)(&base) {
        Framing::Container => vec![base.records.clone()],
        _ => base.records.iter().map(|v| vec![v.clone()]).collect(),
    };
    let len: usize = ops.iter().map(|o| (arm.ref_enc)(&base, o).len()).sum();
    let mut plans = vec![];
    for at in 0..len {
        let mut p = base.clone();
        p.medium.push(MFault::Trunc { at });
        plans.push(p);
    }
    if (arm.io_reader)(&base) || (arm.scale_input)(&base) {
        for at in 0..len {
            for kind in [CutKind::Err, CutKind::Eof] {
                let mut p = base.clone();
                p.read.cut = Some((at, kind));
                plans.push(p);
            }
        }
    }
    if (arm.writer_fallible)(&base) && arm.name != "serde-sim" {
        for at in 0..len {
            let mut p = base.clone();
            p.write.err_at = Some(at);
            plans.push(p);
        }
    }
    let exhaustive_bits = len <= 128;
    let mut bytes: Vec<usize> = if exhaustive_bits {
        (0..len).collect()
    } else {
        let mut v: Vec<usize> = (0..20).chain(len - 16..len).collect();
        for _ in 0..8 {
            v.push(rng.below(len));
        }
        v.sort_unstable();
        v.dedup();
        v
    };
    bytes.retain(|&b| b < len);
    for at in bytes {
        for bit in 0..8 {
            let mut p = base.clone();
            p.medium.push(MFault::Flip { at, bit });
            plans.push(p);
        }
    }
    // every value of the first two bytes (tag / header / length-of-length / first length byte)
    for at in 0..len.min(2) {
        for byte in 0..=255u8 {
            let mut p = base.clone();
            p.medium.push(MFault::Sub { at, byte });
            plans.push(p);
        }
    }
    // textual records (JSON strings, postgres text / JSON columns, ...): EVERY position (the first and last
    // 32 when longer) x every character of a set that number parsers are known to trip over - signs, the
    // ignored '_', digits on both sides of each alphabet's limit, prefix letters, quotes, exponent markers -
    // as a substitution and as an insertion (added after the sub-agent change c17ac: "0x+1f" accepted)
    if ops.len() == 1 {
        let enc = (arm.ref_enc)(&base, &ops[0]);
        if !enc.is_empty() && enc.len() == len && enc.iter().all(|b| (0x20..0x7f).contains(b) || *b == b'\n') {
            const TEXTY: &[u8] = b"+-_ 09afgzAFGZxXobO/,=\"\\.eE#";
            let positions: Vec<usize> = if len <= 64 { (0..len).collect() } else { (0..32).chain(len - 32..len).collect() };
            for &at in &positions {
                for &byte in TEXTY {
                    if enc[at] != byte {
                        let mut p = base.clone();
                        p.medium.push(MFault::Sub { at, byte });
                        plans.push(p);
                    }
                }
                for &byte in b"+-_ 0x\"" {
                    let mut bytes = enc.clone();
                    bytes.insert(at, byte);
                    let mut p = base.clone();
                    p.medium.push(MFault::Garbage { rec: 0, bytes, forged: false });
                    plans.push(p);
                }
            }
        }
    }
    SweepSet { base, plans, exhaustive_bits, enc_len: len }
}

fn arm_of(p: &Plan) -> &'static arms::ArmInfo {
    arms::arm_by_name(&p.codec).unwrap()
}
