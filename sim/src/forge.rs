//! M-FORGE: a hostile or broken producer. Instead of damaging a valid record, the record is
//! replaced by a *structurally plausible* message built from the format's grammar with boundary
//! values in its fields (lengths, counts, tags, signs, digit words, top bytes). This is the
//! "valid encodings with single-field mutations (length bytes, excess high bits, leading zeros,
//! truncation)" bias of C17's quantifier, taken further than bit flips can reach. The forged bytes
//! are written into the plan explicitly (`M-GARBAGE` with `forged = true`), so replay and
//! minimisation do not depend on this generator. Everything here is format knowledge only; no
//! code under test is called.

use crate::arms::{der, postgres, refrlp, scale};
use crate::num::{self, nbytes};
use crate::plan::Plan;
use crate::prng::Rng;

/// payload of `n` bytes with an "interesting" most significant byte placed at `top_first`
fn payload(rng: &mut Rng, n: usize, be: bool) -> Vec<u8> {
    let mut v = match rng.below(4) {
        0 => vec![0u8; n],
        1 => vec![0xffu8; n],
        _ => rng.bytes(n),
    };
    if n > 0 {
        let top = *rng.pick(&[0x00u8, 0x01, 0x7f, 0x80, 0xff, 0x02, 0x03, 0x1f, 0x20, 0x3f, 0x40]);
        if rng.chance(2, 3) {
            if be {
                v[0] = top;
            } else {
                v[n - 1] = top;
            }
        }
    }
    v
}

/// a length near the type's byte length or near a format boundary
fn near_len(rng: &mut Rng, nb: usize) -> usize {
    match rng.below(8) {
        0 => 0,
        1 => 1,
        2 => nb.saturating_sub(1),
        3 | 4 => nb,
        5 => nb + 1,
        6 => *rng.pick(&[55usize, 56, 57, 127, 128, 129, 255, 256, 257, 4, 8, 16, 67, 68]),
        _ => rng.below(nb + 18),
    }
}

fn i16be(x: i64) -> [u8; 2] {
    (x as i16).to_be_bytes()
}

pub fn forge(p: &Plan, rng: &mut Rng) -> Option<Vec<u8>> {
    let bits = p.bits;
    let nb = nbytes(bits);
    Some(match p.codec.as_str() {
        "alloy-rlp" | "fastrlp03" | "fastrlp04" | "rlp" => {
            let list = rng.chance(1, 6);
            let n = near_len(rng, nb).min(nb + 20);
            let mut pl = payload(rng, n, true);
            if n == 1 && rng.chance(1, 2) {
                pl[0] = *rng.pick(&[0x00u8, 0x01, 0x7f, 0x80, 0x81]);
            }
            match rng.below(6) {
                // canonical header
                0 | 1 | 2 => {
                    let mut out = if !list && n == 1 && pl[0] < 0x80 && rng.chance(2, 3) { vec![] } else { refrlp::header(n, list) };
                    out.extend(pl);
                    out
                }
                // long form although short would do / leading zero in the length
                3 => {
                    let base = if list { 0xf7u8 } else { 0xb7u8 };
                    let lenb: Vec<u8> = match rng.below(3) {
                        0 => vec![n as u8],
                        1 => vec![0, n as u8],
                        _ => vec![(n >> 8) as u8, n as u8],
                    };
                    let mut out = vec![base + lenb.len() as u8];
                    out.extend(lenb);
                    out.extend(pl);
                    out
                }
                // header announces more or less than is there
                4 => {
                    let mut out = refrlp::header((n + 1 + rng.below(3)).min(300), list);
                    out.extend(pl);
                    out
                }
                _ => {
                    let mut out = refrlp::header(n.saturating_sub(1), list);
                    out.extend(pl);
                    out
                }
            }
        }
        "der" => {
            let tag = *rng.pick(&[0x02u8, 0x02, 0x02, 0x02, 0x03, 0x04, 0x30, 0x82, 0x22, 0x00]);
            let n = near_len(rng, nb + 1).min(nb + 20);
            let mut c = payload(rng, n, true);
            if n >= 2 && rng.chance(1, 2) {
                let (a, b) = *rng.pick(&[(0x00u8, 0x00u8), (0x00, 0x7f), (0x00, 0x80), (0x00, 0xff), (0xff, 0x80), (0xff, 0x7f), (0x7f, 0xff), (0x80, 0x00)]);
                c[0] = a;
                c[1] = b;
            }
            let mut out = vec![tag];
            match rng.below(6) {
                0 | 1 | 2 => out.extend(der::der_len(n)),
                3 => out.extend([0x81, n as u8]),               // long form for a short length
                4 => out.extend([0x82, (n >> 8) as u8, n as u8]), // two length bytes, possibly leading zero
                _ => out.extend(*rng.pick(&[&[0x80u8][..], &[0x84, 0, 0, 0, 1], &[0x85, 0, 0, 0, 0, 1], &[0xff]])),
            }
            out.extend(c);
            if rng.chance(1, 8) {
                out.pop();
            }
            out
        }
        "scale-compact" | "scale-fixed" => {
            let fixed = p.codec == "scale-fixed";
            if fixed {
                let n = near_len(rng, nb).min(nb + 20);
                let mut out = match rng.below(4) {
                    // non-minimal / wider compact forms of the length
                    0 => ((n as u16) << 2 | 1).to_le_bytes().to_vec(),
                    1 => ((n as u32) << 2 | 2).to_le_bytes().to_vec(),
                    _ => scale::compact_enc(&num::from_u128(n as u128)),
                };
                let have = if rng.chance(1, 5) { n.saturating_sub(1) } else { n };
                out.extend(payload(rng, have, false));
                out
            } else {
                match rng.below(5) {
                    0 => vec![rng.byte() & 0xfc],
                    1 => {
                        let x: u16 = *rng.pick(&[0u16, 1, 63, 64, 0x3fff, 0x1234]);
                        (x << 2 | 1).to_le_bytes().to_vec()
                    }
                    2 => {
                        let x: u32 = *rng.pick(&[0u32, 63, 64, 0x3fff, 0x4000, 0x3fff_ffff, 0x1234_5678 >> 2]);
                        (x << 2 | 2).to_le_bytes().to_vec()
                    }
                    _ => {
                        // big-integer mode announcing n bytes
                        let n = match rng.below(6) {
                            0 => 4,
                            1 => 8,
                            2 => 16,
                            3 => nb.clamp(4, 67),
                            4 => (nb + 1).clamp(4, 67),
                            _ => rng.range(4, 67),
                        };
                        let mut out = vec![(((n - 4) << 2) | 3) as u8];
                        let mut pl = payload(rng, n, false);
                        if rng.chance(1, 3) {
                            // value just at the mode limit: 2^30, 2^(8(n-1)) (minimal) or below (non-minimal)
                            pl = vec![0u8; n];
                            match rng.below(3) {
                                0 => pl[3] = 0x40,
                                1 => pl[n - 1] = 1,
                                _ => pl[n.saturating_sub(2)] = 0xff,
                            }
                        }
                        let have = if rng.chance(1, 6) { n - 1 } else { n };
                        pl.truncate(have);
                        out.extend(pl);
                        out
                    }
                }
            }
        }
        "serde-bincode" => {
            let n = near_len(rng, nb).min(nb + 20);
            let announced: u64 = match rng.below(6) {
                0 => n as u64 + 1,
                1 => n.saturating_sub(1) as u64,
                2 => *rng.pick(&[u64::MAX, 1 << 32, 1 << 63, 65536, 65537]),
                _ => n as u64,
            };
            let mut out = announced.to_le_bytes().to_vec();
            out.extend(payload(rng, n, true));
            out
        }
        "serde-json" => {
            let forms: &[&str] = &[
                "\"\"", "\"", "\"0x\"", "\"0X0\"", "\"0x0000\"", "\"0\"", "\"00\"", "\"0b\"", "\"0o7\"", "\"0b101\"", "\"_\"", "\"0x_1\"", "\"1_0\"", "\"0xg\"",
                "\" 1\"", "\"1 \"", "\"+1\"", "\"-1\"", "\"-0\"", "\"1.0\"", "\"1e3\"", "\"0x1p3\"", "0", "1", "255", "256", "65535", "4294967295", "4294967296",
                "18446744073709551615", "18446744073709551616", "-1", "-0", "1.0", "1e3", "0.0", "null", "true", "[]", "[1]", "{}", "\"\\u0031\"", "\"0\\u00781\"",
                "\"١\"", "\"0é\"", "\"€\"",
            ];
            let mut s = if rng.chance(1, 2) {
                (*rng.pick(forms)).to_string()
            } else {
                // a hex / decimal string at or around the type's capacity
                let v = match rng.below(4) {
                    0 => num::max_value(bits),
                    1 => num::pow2(bits),
                    2 => num::add_small(&num::pow2(bits), 1),
                    _ => crate::gen::gen_value(rng, bits),
                };
                let b = num::to_biguint(&v);
                match rng.below(5) {
                    0 => format!("\"{}\"", b.to_str_radix(10)),
                    1 => format!("\"0x{}\"", b.to_str_radix(16).to_uppercase()),
                    2 => format!("\"0x000{}\"", b.to_str_radix(16)),
                    3 => format!("\"0b{}\"", b.to_str_radix(2)),
                    _ => format!("\"0o{}\"", b.to_str_radix(8)),
                }
            };
            if p.flavour == 4 {
                s.push('\n');
            }
            if matches!(p.flavour, 2 | 3) {
                s = format!("[{s}]");
            }
            s.into_bytes()
        }
        "serde-sim" => {
            if p.flavour & 1 == 1 {
                let v = match rng.below(3) {
                    0 => num::pow2(bits),
                    1 => num::max_value(bits),
                    _ => crate::gen::gen_value(rng, bits),
                };
                let b = num::to_biguint(&v);
                (*rng.pick(&[format!("0x{}", b.to_str_radix(16)), b.to_str_radix(10), format!("0X{}", b.to_str_radix(16).to_uppercase()), format!("0b{}", b.to_str_radix(2)), "0x".into(), "".into(), "0é".into(), "_".into()])).clone().into_bytes()
            } else {
                let n = near_len(rng, nb).min(nb + 20);
                payload(rng, n, true)
            }
        }
        "postgres" => {
            let ty = postgres::TYPES[p.aux(1) as usize % postgres::TYPES.len()].0;
            match ty {
                "NUMERIC" => {
                    let nd: i64 = *rng.pick(&[0i64, 0, 1, 1, 2, 2, 3, 4, 8, -1, 0x7fff]);
                    let weight: i64 = match rng.below(8) {
                        0 => nd - 1,
                        1 => nd - 2,
                        2 => nd,
                        3 => 0,
                        4 => 0x7fff,
                        5 => -1,
                        6 => 0x7ffe,
                        _ => rng.below(40) as i64,
                    };
                    let sign: i64 = *rng.pick(&[0i64, 0, 0, 0, 0, 0x4000, 0xc000, 1]);
                    let dscale: i64 = *rng.pick(&[0i64, 0, 0, 0, 0, 1, 0x3fff]);
                    let words = match rng.below(6) {
                        0 => nd + 1,
                        1 => nd - 1,
                        _ => nd,
                    }
                    .clamp(0, 64);
                    let mut out = vec![];
                    out.extend(i16be(nd));
                    out.extend(i16be(weight));
                    out.extend(i16be(sign));
                    out.extend(i16be(dscale));
                    let all_zero = rng.chance(1, 4);
                    for _ in 0..words {
                        let d: i64 = if all_zero { 0 } else { *rng.pick(&[0i64, 0, 1, 9999, 10000, -1, 1234, 5000]) };
                        out.extend(i16be(d));
                    }
                    out
                }
                "BIT" | "VARBIT" => {
                    let len: i64 = match rng.below(10) {
                        0 => 0,
                        1 => 1,
                        2 => 7,
                        3 => 8,
                        4 => 9,
                        5 => bits as i64 - 1,
                        6 => bits as i64,
                        7 => bits as i64 + 1,
                        8 => *rng.pick(&[-1i64, i64::from(i32::MAX), i64::from(i32::MIN), 1 << 20]),
                        _ => rng.below(bits + 20) as i64,
                    };
                    let need = ((len.clamp(0, 1 << 16) + 7) / 8) as usize;
                    let have = match rng.below(6) {
                        0 => need + 1,
                        1 => need.saturating_sub(1),
                        2 => 0,
                        _ => need,
                    }
                    .min(nb + 24);
                    let mut out = (len as i32).to_be_bytes().to_vec();
                    out.extend(payload(rng, have, true));
                    out
                }
                "JSON" | "JSONB" => {
                    let forms: &[&str] = &["\"", "\"\"", "\"0x0\"", "0x0", "\"0x", "0x\"", "\"\"\"", "", "1", "\"1\"", "\"0é\"", "é", "\"_\"", "\" \""];
                    let mut out = vec![];
                    if ty == "JSONB" && rng.chance(5, 6) {
                        out.push(*rng.pick(&[1u8, 1, 1, 1, 0, 2]));
                    }
                    out.extend(rng.pick(forms).as_bytes());
                    out
                }
                "CHAR" | "TEXT" | "VARCHAR" => {
                    let forms: &[&str] = &["", "0", "0x", "0X", "0b", "0o", "_", "0é", "€", "x", "0x0", "00", "-1", "+1", " 1", "1 ", "0xg", "1_000"];
                    rng.pick(forms).as_bytes().to_vec()
                }
                "MONEY" => {
                    let x: i64 = *rng.pick(&[0i64, 1, 99, 100, 101, -1, -99, -100, -101, i64::MAX, i64::MIN, i64::MAX - 7, 100 * 255, 100 * 256]);
                    x.to_be_bytes().to_vec()
                }
                "BOOL" => vec![*rng.pick(&[0u8, 1, 2, 0xff])],
                "INT2" => (*rng.pick(&[0i16, 1, -1, i16::MAX, i16::MIN, 255, 256])).to_be_bytes().to_vec(),
                "INT4" | "OID" => (*rng.pick(&[0i32, 1, -1, i32::MAX, i32::MIN, 65535, 65536])).to_be_bytes().to_vec(),
                "INT8" => (*rng.pick(&[0i64, 1, -1, i64::MAX, i64::MIN, 1 << 32])).to_be_bytes().to_vec(),
                "FLOAT4" => {
                    // fixed boundary values, or values around the type's capacity 2^BITS (the
                    // range check / rounding / truncation boundary of the float conversion)
                    let c = 2f32.powi(bits.min(127) as i32);
                    let cap = [c - 0.5, c - 1.0, c, c + 0.5, c - 0.25, c * 2.0 - 0.5, -(c - 0.5), c - 1.5, 0.5, 1.5, 0.49999997, 255.5, 65535.5];
                    let fixed = [0f32, -0.0, 1.0, -1.0, f32::MAX, f32::MIN, f32::INFINITY, f32::NEG_INFINITY, f32::NAN, 1e20, 16777216.0, f32::MIN_POSITIVE, f32::EPSILON];
                    (if rng.chance(1, 2) { *rng.pick(&cap) } else { *rng.pick(&fixed) }).to_be_bytes().to_vec()
                }
                "FLOAT8" => {
                    let c = 2f64.powi(bits.min(1023) as i32);
                    let cap = [c - 0.5, c - 1.0, c, c + 0.5, c - 0.25, c * 2.0 - 0.5, -(c - 0.5), c - 1.5, 0.5, 1.5, 0.49999999999999994, 255.5, 65535.5, 4294967295.5, 4503599627370495.5];
                    let fixed = [0f64, -0.0, 1.0, -1.0, f64::MAX, f64::MIN, f64::INFINITY, f64::NEG_INFINITY, f64::NAN, 1e300, 9007199254740993.0, 1.8446744073709552e19, f64::MIN_POSITIVE, f64::EPSILON];
                    (if rng.chance(1, 2) { *rng.pick(&cap) } else { *rng.pick(&fixed) }).to_be_bytes().to_vec()
                }
                _ => {
                    let n = near_len(rng, nb).min(nb + 20);
                    payload(rng, n, true)
                }
            }
        }
        // fixed-width little/big endian and friends: length and top-byte variations
        "borsh" | "ssz" | "raw-slice" | "bytemuck" | "convert" => {
            let n = near_len(rng, nb).min(nb + 20);
            let be = matches!(p.codec.as_str(), "convert") || (p.codec == "raw-slice" && p.flavour % 2 == 0);
            let mut out = vec![];
            if p.codec == "borsh" && p.flavour == 3 {
                out.extend((*rng.pick(&[0u32, 1, 2, u32::MAX, 1 << 31])).to_le_bytes());
            }
            out.extend(payload(rng, n, be));
            out
        }
        _ => return None,
    })
}
