//! The one source of nondeterminism: splitmix64 for seed derivation, xoshiro256** per run.
//! Nothing else in the simulator draws entropy (no OS RNG, no clock, no RandomState).

#[inline]
pub fn splitmix64(x: &mut u64) -> u64 {
    *x = x.wrapping_add(0x9E37_79B9_7F4A_7C15);
    let mut z = *x;
    z = (z ^ (z >> 30)).wrapping_mul(0xBF58_476D_1CE4_E5B9);
    z = (z ^ (z >> 27)).wrapping_mul(0x94D0_49BB_1331_11EB);
    z ^ (z >> 31)
}

/// Seed of run `index` of `arm` in the batch started from `base`.
pub fn run_seed(base: u64, arm: u64, index: u64) -> u64 {
    let mut s = base ^ arm.wrapping_mul(0xA076_1D64_78BD_642F);
    let a = splitmix64(&mut s);
    let mut t = a ^ index.wrapping_mul(0xE703_7ED1_A0B4_28DB);
    splitmix64(&mut t)
}

#[derive(Clone, Debug)]
pub struct Rng {
    s: [u64; 4],
    pub draws: u64,
}

impl Rng {
    pub fn new(seed: u64) -> Self {
        let mut x = seed;
        let s = [
            splitmix64(&mut x),
            splitmix64(&mut x),
            splitmix64(&mut x),
            splitmix64(&mut x),
        ];
        Self { s, draws: 0 }
    }

    #[inline]
    pub fn next(&mut self) -> u64 {
        self.draws += 1;
        let r = self.s[1].wrapping_mul(5).rotate_left(7).wrapping_mul(9);
        let t = self.s[1] << 17;
        self.s[2] ^= self.s[0];
        self.s[3] ^= self.s[1];
        self.s[1] ^= self.s[2];
        self.s[0] ^= self.s[3];
        self.s[2] ^= t;
        self.s[3] = self.s[3].rotate_left(45);
        r
    }

    /// Uniform in 0..n (n > 0). Modulo bias is irrelevant here.
    #[inline]
    pub fn below(&mut self, n: usize) -> usize {
        debug_assert!(n > 0);
        (self.next() % n as u64) as usize
    }

    /// Uniform in lo..=hi.
    #[inline]
    pub fn range(&mut self, lo: usize, hi: usize) -> usize {
        lo + self.below(hi - lo + 1)
    }

    #[inline]
    pub fn chance(&mut self, num: u64, den: u64) -> bool {
        self.next() % den < num
    }

    #[inline]
    pub fn byte(&mut self) -> u8 {
        self.next() as u8
    }

    pub fn bytes(&mut self, n: usize) -> Vec<u8> {
        (0..n).map(|_| self.byte()).collect()
    }

    pub fn pick<'a, T>(&mut self, xs: &'a [T]) -> &'a T {
        &xs[self.below(xs.len())]
    }
}

/// FNV-1a style 64-bit digest used for event logs and coverage signatures (stable, keyless).
#[derive(Clone, Copy, Debug)]
pub struct Digest(pub u64);

impl Default for Digest {
    fn default() -> Self {
        Self(0xcbf2_9ce4_8422_2325)
    }
}

impl Digest {
    #[inline]
    pub fn u8(&mut self, b: u8) {
        self.0 ^= u64::from(b);
        self.0 = self.0.wrapping_mul(0x0000_0100_0000_01B3);
    }
    #[inline]
    pub fn u64(&mut self, v: u64) {
        for b in v.to_le_bytes() {
            self.u8(b);
        }
    }
    pub fn bytes(&mut self, bs: &[u8]) {
        self.u64(bs.len() as u64);
        for &b in bs {
            self.u8(b);
        }
    }
    pub fn str(&mut self, s: &str) {
        self.bytes(s.as_bytes());
    }
    pub fn finish(&self) -> u64 {
        let mut x = self.0;
        splitmix64(&mut x)
    }
}
