//! Per-run context: event log digest, fault/probe counters, violations, and the panic guard.

use crate::num::{self, Num};
use crate::prng::Digest;
use ruint::Uint;
use std::cell::RefCell;
use std::collections::BTreeMap;
use std::panic::{catch_unwind, AssertUnwindSafe};

#[derive(Clone, Debug, PartialEq, Eq)]
pub struct Violation {
    pub class: &'static str,
    pub detail: String,
}

/// Payload used by seam stubs to abort an operation that exceeded its step budget.
pub struct StepsExceeded(pub usize);
/// Payload used by failing entropy sources (E-FAIL): a simulator-injected panic, not a defect.
pub struct EntropyFailure;

thread_local! {
    static LAST_PANIC: RefCell<Option<String>> = const { RefCell::new(None) };
    static GUARD_DEPTH: std::cell::Cell<u32> = const { std::cell::Cell::new(0) };
}

pub fn install_panic_hook() {
    std::panic::set_hook(Box::new(|info| {
        let loc = info
            .location()
            .map(|l| {
                let f = l.file();
                // keep the path stable across checkouts: strip everything up to a known root
                let f = f
                    .rsplit_once("/repo/")
                    .map(|(_, r)| format!("repo/{r}"))
                    .or_else(|| f.rsplit_once("/registry/src/").map(|(_, r)| {
                        let r = r.split_once('/').map_or(r, |(_, x)| x);
                        format!("dep/{r}")
                    }))
                    .unwrap_or_else(|| f.to_string());
                format!("{f}:{}", l.line())
            })
            .unwrap_or_else(|| "?".into());
        let msg = if let Some(s) = info.payload().downcast_ref::<&str>() {
            (*s).to_string()
        } else if let Some(s) = info.payload().downcast_ref::<String>() {
            s.clone()
        } else if info.payload().downcast_ref::<StepsExceeded>().is_some() {
            "<steps exceeded>".into()
        } else if info.payload().downcast_ref::<EntropyFailure>().is_some() {
            "<entropy failure>".into()
        } else {
            "<non-string panic>".into()
        };
        let mut msg: String = msg.chars().take(160).collect();
        // digits inside messages (lengths, indices) would defeat shrinking's "same detail" test
        msg = msg.replace('\n', " ");
        if GUARD_DEPTH.with(std::cell::Cell::get) == 0 {
            // a panic outside any guard is a bug in the harness itself: be loud
            eprintln!("HARNESS PANIC (outside guard): {msg} @ {loc}");
        }
        LAST_PANIC.with(|p| *p.borrow_mut() = Some(format!("{msg} @ {loc}")));
    }));
}

pub enum Guarded<T> {
    Ok(T),
    Panic(String),
    Steps(usize),
    EntropyFailed,
}

/// Run code under test; turn an unwind into data.
pub fn guard<T>(f: impl FnOnce() -> T) -> Guarded<T> {
    GUARD_DEPTH.with(|d| d.set(d.get() + 1));
    let r = catch_unwind(AssertUnwindSafe(f));
    GUARD_DEPTH.with(|d| d.set(d.get() - 1));
    match r {
        Ok(v) => Guarded::Ok(v),
        Err(p) => {
            let msg = LAST_PANIC.with(|l| l.borrow_mut().take()).unwrap_or_default();
            if let Some(s) = p.downcast_ref::<StepsExceeded>() {
                Guarded::Steps(s.0)
            } else if p.downcast_ref::<EntropyFailure>().is_some() {
                Guarded::EntropyFailed
            } else {
                Guarded::Panic(msg)
            }
        }
    }
}

#[derive(Default)]
pub struct Ctx {
    pub log: Digest,
    pub seam_events: u64,
    pub fired: BTreeMap<&'static str, u32>,
    pub probes: BTreeMap<&'static str, u32>,
    pub violations: Vec<Violation>,
    /// values that crossed a seam in this run: (raw limb number, canonical, ==-class id, hash)
    pub seen: Vec<Num>,
    pub outcome: String,
    /// verbose human-readable event list (only when tracing a single run)
    pub trace: Option<Vec<String>>,
    /// when set, the pipeline stores the medium as the consumer saw it: (bytes, damaged, dropped)
    pub collect_medium: bool,
    pub final_medium: Vec<(Vec<u8>, bool, bool)>,
}

impl Ctx {
    pub fn new(trace: bool) -> Self {
        Self {
            trace: if trace { Some(vec![]) } else { None },
            ..Default::default()
        }
    }

    #[inline]
    pub fn event(&mut self, tag: &str, a: u64, b: u64) {
        self.log.str(tag);
        self.log.u64(a);
        self.log.u64(b);
        if let Some(t) = &mut self.trace {
            t.push(format!("{tag} {a} {b}"));
        }
    }

    #[inline]
    pub fn event_bytes(&mut self, tag: &str, bytes: &[u8]) {
        self.log.str(tag);
        self.log.bytes(bytes);
        if let Some(t) = &mut self.trace {
            let h = num::hex(bytes);
            let h = if h.len() > 96 { format!("{}..({}B)", &h[..96], bytes.len()) } else { h };
            t.push(format!("{tag} {h}"));
        }
    }

    #[inline]
    pub fn seam(&mut self, tag: &str, a: u64, b: u64) {
        self.seam_events += 1;
        self.event(tag, a, b);
    }

    #[inline]
    pub fn fire(&mut self, kind: &'static str) {
        *self.fired.entry(kind).or_insert(0) += 1;
        self.log.str(kind);
        if let Some(t) = &mut self.trace {
            t.push(format!("FAULT {kind}"));
        }
    }

    #[inline]
    pub fn probe(&mut self, name: &'static str) {
        *self.probes.entry(name).or_insert(0) += 1;
    }

    pub fn violate(&mut self, class: &'static str, detail: impl Into<String>) {
        let detail = detail.into();
        self.log.str(class);
        if let Some(t) = &mut self.trace {
            t.push(format!("VIOLATION {class}: {detail}"));
        }
        // one violation per class per run is enough (keeps shrinking predicates simple)
        if !self.violations.iter().any(|v| v.class == class) {
            self.violations.push(Violation { class, detail });
        }
    }

    /// A `Uint` came out of code under test (decoder, parser, generator, or a `&mut` target after
    /// an unwind). Checks the canonical-limb invariant (NONCANON) and remembers the value for the
    /// end-of-run ==/Hash/Ord oracle. Returns the number the limbs denote.
    pub fn observe<const B: usize, const L: usize>(&mut self, what: &str, u: &Uint<B, L>) -> Num {
        let (n, canon) = num::observe(u);
        if !canon {
            self.violate(
                "NONCANON",
                format!("{what}: Uint<{B}> with bits set at positions >= BITS (limbs denote 0x{})", num::hex(&n)),
            );
        } else {
            self.order_check(what, u, &n);
        }
        n
    }

    /// ORDER oracle: ==, Hash, cmp, min, max between this value and a few model-built companions
    /// must follow the integers. Companions are built with `from_limbs` from model numbers, so a
    /// decoder/generator output that is "equal as a number" must be ==, hash-equal and Ordering::Equal.
    fn order_check<const B: usize, const L: usize>(&mut self, what: &str, u: &Uint<B, L>, n: &Num) {
        use std::hash::{Hash, Hasher};
        let h = |x: &Uint<B, L>| {
            let mut s = std::collections::hash_map::DefaultHasher::new();
            x.hash(&mut s);
            s.finish()
        };
        let twin: Uint<B, L> = num::to_uint(n);
        // the Bits wrapper and references must agree with the value they wrap
        let hb = |x: &ruint::Bits<B, L>| {
            let mut s = std::collections::hash_map::DefaultHasher::new();
            x.hash(&mut s);
            s.finish()
        };
        let (bu, bt) = (ruint::Bits::from(*u), ruint::Bits::from(twin));
        if !(bu == bt && hb(&bu) == hb(&bt) && &u == &&twin && !(u != &twin) && u.max(&twin) == u.min(&twin)) {
            self.violate("ORDER", format!("{what}: Bits / reference equality of 0x{} disagrees with the value", num::hex(n)));
        }
        if !(*u == twin && h(u) == h(&twin) && u.cmp(&twin) == std::cmp::Ordering::Equal) {
            self.violate("ORDER", format!("{what}: value 0x{} is not ==/hash/cmp-equal to the same number built by from_limbs", num::hex(n)));
        }
        // compare against up to two earlier values of this run
        let k = self.seen.len();
        for i in k.saturating_sub(2)..k {
            let m = self.seen[i].clone();
            if !num::fits(&m, B) {
                continue;
            }
            let other: Uint<B, L> = num::to_uint(&m);
            let want = num::cmp(n, &m);
            let got = u.cmp(&other);
            let ok = got == want
                && (u < &other) == (want == std::cmp::Ordering::Less)
                && (u <= &other) == (want != std::cmp::Ordering::Greater)
                && (u > &other) == (want == std::cmp::Ordering::Greater)
                && (u >= &other) == (want != std::cmp::Ordering::Less)
                && u.partial_cmp(&other) == Some(want)
                && other.cmp(u) == want.reverse()
                && (u == &other) == (want == std::cmp::Ordering::Equal)
                && (u != &other) == (want != std::cmp::Ordering::Equal)
                && ((h(u) == h(&other)) || want != std::cmp::Ordering::Equal)
                // the other surfaces that hand out an equality / ordering verdict on Uints: is_zero and the
                // constant-time comparisons of the subtle integration (verdict only; timing is not judged)
                && u.is_zero() == n.iter().all(|&x| x == 0)
                && {
                    use subtle::{ConstantTimeEq, ConstantTimeGreater, ConstantTimeLess};
                    bool::from(u.ct_eq(&other)) == (want == std::cmp::Ordering::Equal)
                        && bool::from(u.ct_ne(&other)) == (want != std::cmp::Ordering::Equal)
                        && bool::from(u.ct_lt(&other)) == (want == std::cmp::Ordering::Less)
                        && bool::from(u.ct_gt(&other)) == (want == std::cmp::Ordering::Greater)
                        && bool::from(other.ct_gt(u)) == (want == std::cmp::Ordering::Less)
                }
                && {
                    let mn = std::cmp::min(*u, other);
                    let mx = std::cmp::max(*u, other);
                    let (mnn, _) = num::observe(&mn);
                    let (mxn, _) = num::observe(&mx);
                    let (lo, hi) = if want == std::cmp::Ordering::Greater { (&m, n) } else { (n, &m) };
                    &mnn == lo && &mxn == hi
                };
            if !ok {
                self.violate("ORDER", format!("{what}: comparison of 0x{} with 0x{} disagrees with the integers", num::hex(n), num::hex(&m)));
            }
        }
        if self.seen.len() < 8 {
            self.seen.push(n.clone());
        }
    }
}
