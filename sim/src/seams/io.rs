//! Byte-stream seams: the write side (medium being produced) and the read side (medium being
//! consumed). Both implement `std::io::{Write,Read}` (== `borsh::io`, serde_json, bincode) and
//! expose slice access for cursor-style decoders.

use crate::ctx::{Ctx, StepsExceeded};
use crate::plan::{CutKind, ReadPlan, WritePlan};
use std::io;

pub const MAX_EINTR_BURST: u8 = 3;

pub struct WriteSeam<'a> {
    pub ctx: &'a mut Ctx,
    pub plan: &'a WritePlan,
    /// the medium under construction
    pub dest: Vec<u8>,
    calls: u32,
    accepted: usize,
    burst: u8,
    op_calls: usize,
    op_budget: usize,
    pub hard_failed: bool,
}

impl<'a> WriteSeam<'a> {
    pub fn new(ctx: &'a mut Ctx, plan: &'a WritePlan) -> Self {
        let dest = plan.prefill.clone();
        if !dest.is_empty() {
            ctx.fire("D-PREFILL");
        }
        Self { ctx, plan, dest, calls: 0, accepted: 0, burst: 0, op_calls: 0, op_budget: usize::MAX, hard_failed: false }
    }

    pub fn begin_op(&mut self, budget: usize) {
        self.op_calls = 0;
        self.op_budget = budget;
    }

    pub fn op_calls(&self) -> usize {
        self.op_calls
    }

    fn step(&mut self) {
        self.op_calls += 1;
        if self.op_calls > self.op_budget {
            std::panic::panic_any(StepsExceeded(self.op_calls));
        }
    }

    /// Bytes written so far excluding the prefill.
    pub fn written(&self) -> &[u8] {
        &self.dest[self.plan.prefill.len()..]
    }

    /// All-or-error write for writer traits without short writes (`der::Writer`): accepts the
    /// bytes up to the injected failure point, then fails.
    pub fn write_all_or_fail(&mut self, bytes: &[u8]) -> Result<(), ()> {
        self.step();
        let mut n = bytes.len();
        let mut fail = false;
        if let Some(k) = self.plan.err_at {
            let room = k.saturating_sub(self.accepted);
            if room < n {
                n = room;
                fail = true;
            }
        }
        self.ctx.seam("W-ALL", bytes.len() as u64, n as u64);
        self.dest.extend_from_slice(&bytes[..n]);
        self.accepted += n;
        if fail {
            self.hard_failed = true;
            self.ctx.fire("W-ERR");
            return Err(());
        }
        Ok(())
    }

    /// Append produced by a destination the simulator handed out (BufMut containers etc.):
    /// one seam event, no chunking.
    pub fn append(&mut self, bytes: &[u8]) {
        self.ctx.seam("W-APPEND", bytes.len() as u64, 0);
        self.accepted += bytes.len();
        self.dest.extend_from_slice(bytes);
    }
}

impl io::Write for WriteSeam<'_> {
    fn write(&mut self, buf: &[u8]) -> io::Result<usize> {
        self.step();
        let idx = self.calls;
        self.calls += 1;
        if buf.is_empty() {
            self.ctx.seam("W", 0, 0);
            return Ok(0);
        }
        if self.plan.eintr.contains(&idx) && self.burst < MAX_EINTR_BURST {
            self.burst += 1;
            self.ctx.seam("W-EINTR", u64::from(idx), 0);
            self.ctx.fire("W-EINTR");
            return Err(io::Error::new(io::ErrorKind::Interrupted, "sim: interrupted"));
        }
        self.burst = 0;
        let mut n = buf.len();
        if !self.plan.chunks.is_empty() {
            let c = self.plan.chunks[idx as usize % self.plan.chunks.len()] as usize;
            if c != 0 {
                n = n.min(c);
            }
        }
        if let Some(k) = self.plan.err_at {
            let room = k.saturating_sub(self.accepted);
            if room == 0 {
                self.hard_failed = true;
                self.ctx.seam("W-ERR", k as u64, 0);
                self.ctx.fire("W-ERR");
                return Err(io::Error::new(io::ErrorKind::Other, "sim: device full"));
            }
            n = n.min(room);
        }
        if n < buf.len() {
            self.ctx.fire("W-SHORT");
        }
        self.ctx.seam("W", buf.len() as u64, n as u64);
        self.dest.extend_from_slice(&buf[..n]);
        self.accepted += n;
        Ok(n)
    }

    fn flush(&mut self) -> io::Result<()> {
        Ok(())
    }
}

pub struct ReadSeam<'a> {
    pub ctx: &'a mut Ctx,
    pub plan: &'a ReadPlan,
    pub src: &'a [u8],
    /// global offset of src[0] in the medium (message framing hands out sub-slices)
    pub base: usize,
    pub pos: usize,
    /// bytes at src[limit..] are invisible (cut by R-ERR / R-EOF)
    pub limit: usize,
    pub cut: Option<CutKind>,
    calls: u32,
    burst: u8,
    op_calls: usize,
    op_budget: usize,
    pub cut_hit: bool,
}

impl<'a> ReadSeam<'a> {
    pub fn new(ctx: &'a mut Ctx, plan: &'a ReadPlan, src: &'a [u8], base: usize) -> Self {
        let mut limit = src.len();
        let mut cut = None;
        if let Some((at, kind)) = plan.cut {
            if at >= base && at - base < src.len() {
                limit = at - base;
                cut = Some(kind);
            }
        }
        Self { ctx, plan, src, base, pos: 0, limit, cut, calls: 0, burst: 0, op_calls: 0, op_budget: usize::MAX, cut_hit: false }
    }

    pub fn begin_op(&mut self, budget: usize) {
        self.op_calls = 0;
        self.op_budget = budget;
    }

    pub fn op_calls(&self) -> usize {
        self.op_calls
    }

    fn step(&mut self) {
        self.op_calls += 1;
        if self.op_calls > self.op_budget {
            std::panic::panic_any(StepsExceeded(self.op_calls));
        }
    }

    /// What a slice-based decoder is offered: everything visible from the cursor on.
    pub fn rest(&self) -> &'a [u8] {
        &self.src[self.pos.min(self.limit)..self.limit]
    }

    /// The whole visible part (ignoring the cursor).
    pub fn visible(&self) -> &'a [u8] {
        &self.src[..self.limit]
    }

    pub fn advance(&mut self, n: usize) {
        self.ctx.seam("R-SLICE", self.pos as u64, n as u64);
        self.pos += n;
    }

    /// Note that a slice decoder was handed a cut slice (so the fault counts as fired).
    pub fn note_cut_for_slice(&mut self) {
        if let Some(k) = self.cut {
            if !self.cut_hit {
                self.cut_hit = true;
                self.ctx.fire(match k {
                    CutKind::Err => "R-ERR",
                    CutKind::Eof => "R-EOF",
                });
            }
        }
    }

    /// Exact-or-error read used by the SCALE `Input` stub.
    pub fn read_exact_or_err(&mut self, into: &mut [u8]) -> Result<(), &'static str> {
        self.step();
        let avail = self.limit.saturating_sub(self.pos);
        if into.len() > avail {
            self.ctx.seam("I-READ-FAIL", into.len() as u64, avail as u64);
            if let Some(k) = self.cut {
                self.cut_hit = true;
                self.ctx.fire(match k {
                    CutKind::Err => "R-ERR",
                    CutKind::Eof => "R-EOF",
                });
            }
            return Err("sim: input exhausted");
        }
        into.copy_from_slice(&self.src[self.pos..self.pos + into.len()]);
        self.ctx.seam("I-READ", self.pos as u64, into.len() as u64);
        self.pos += into.len();
        Ok(())
    }

    pub fn remaining_visible(&self) -> usize {
        self.limit.saturating_sub(self.pos)
    }
}

impl io::Read for ReadSeam<'_> {
    fn read(&mut self, buf: &mut [u8]) -> io::Result<usize> {
        self.step();
        let idx = self.calls;
        self.calls += 1;
        if buf.is_empty() {
            self.ctx.seam("R", 0, 0);
            return Ok(0);
        }
        if self.plan.eintr.contains(&idx) && self.burst < MAX_EINTR_BURST {
            self.burst += 1;
            self.ctx.seam("R-EINTR", u64::from(idx), 0);
            self.ctx.fire("R-EINTR");
            return Err(io::Error::new(io::ErrorKind::Interrupted, "sim: interrupted"));
        }
        self.burst = 0;
        let avail = self.limit.saturating_sub(self.pos);
        if avail == 0 {
            return match self.cut {
                Some(CutKind::Err) => {
                    self.cut_hit = true;
                    self.ctx.seam("R-ERR", self.pos as u64, 0);
                    self.ctx.fire("R-ERR");
                    Err(io::Error::new(io::ErrorKind::Other, "sim: read error"))
                }
                Some(CutKind::Eof) => {
                    if !self.cut_hit {
                        self.cut_hit = true;
                        self.ctx.fire("R-EOF");
                    }
                    self.ctx.seam("R-EOF", self.pos as u64, 0);
                    Ok(0)
                }
                None => {
                    self.ctx.seam("R-END", self.pos as u64, 0);
                    Ok(0)
                }
            };
        }
        let want = buf.len().min(avail);
        let mut n = want;
        if !self.plan.chunks.is_empty() {
            let c = self.plan.chunks[idx as usize % self.plan.chunks.len()] as usize;
            if c != 0 {
                n = n.min(c);
            }
        }
        if n < want {
            self.ctx.fire("R-SHORT");
        }
        buf[..n].copy_from_slice(&self.src[self.pos..self.pos + n]);
        self.ctx.seam("R", self.pos as u64, n as u64);
        self.pos += n;
        Ok(n)
    }
}
