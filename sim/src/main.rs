#![allow(dead_code)]
//! simctl — deterministic simulation with fault injection for ruint's codec / parser / generator
//! seams. See /verif/DESIGN.md.

mod arms;
mod batch;
mod contain;
mod ctx;
mod engine;
mod entropy;
mod forge;
mod gen;
mod history;
mod num;
mod plan;
mod prng;
mod reftext;
mod seams;
mod shrink;
mod sweep;
mod widths;

use std::process::ExitCode;

fn usage() -> ExitCode {
    eprintln!(
        "usage:\n  simctl run --property C04|C16|C17 [--tier quick|thorough] [--seed N] [--scale F] [--jobs N]\n             [--evidence FILE] [--known FILE] [--replays DIR] [--codec NAME] [--bits N]\n  simctl replay FILE [--trace]\n  simctl trace --arm pipeline|text|entropy --config control|benign|destructive --seed N [--codec NAME] [--bits N]\n  simctl digest --property P --runs N --jobs J [--seed N]\n  simctl arms"
    );
    ExitCode::from(2)
}

fn main() -> ExitCode {
    ctx::install_panic_hook();
    let args: Vec<String> = std::env::args().skip(1).collect();
    let Some(cmd) = args.first() else { return usage() };
    let opt = |name: &str| -> Option<String> { args.iter().position(|a| a == name).and_then(|i| args.get(i + 1).cloned()) };
    let flag = |name: &str| args.iter().any(|a| a == name);
    match cmd.as_str() {
        "run" | "probe" | "emit-plan" => {
            let Some(property) = opt("--property") else { return usage() };
            let cfg = batch::RunCfg {
                property,
                tier: opt("--tier").unwrap_or_else(|| "quick".into()),
                seed: opt("--seed").and_then(|s| s.parse().ok()).unwrap_or(batch::DEFAULT_SEED),
                scale: opt("--scale").and_then(|s| s.parse().ok()).unwrap_or(1.0),
                jobs: opt("--jobs").and_then(|s| s.parse().ok()).unwrap_or(16),
                evidence: opt("--evidence"),
                known: opt("--known"),
                replays: opt("--replays").unwrap_or_else(|| "/verif/replays".into()),
                codec: opt("--codec"),
                bits: opt("--bits").and_then(|s| s.parse().ok()),
                profile: opt("--profile").unwrap_or_else(|| "checked".into()),
                hang_file: opt("--hang-file"),
                only_stage: opt("--only-stage").and_then(|s| s.parse().ok()),
                build_label: opt("--build-label").unwrap_or_default(),
                announce: flag("--announce"),
                skip: opt("--skip")
                    .map(|s| s.split(',').filter_map(|x| x.split_once(':').and_then(|(a, b)| Some((a.parse().ok()?, b.parse().ok()?)))).collect())
                    .unwrap_or_default(),
                skip_ops: opt("--skip-ops").map(|s| s.split(',').filter_map(|x| x.parse().ok()).collect()).unwrap_or_default(),
                stop: match (opt("--stop-stage").and_then(|s| s.parse().ok()), opt("--stop-index").and_then(|s| s.parse().ok())) {
                    (Some(a), Some(i)) => Some((a, i)),
                    _ => None,
                },
            };
            history::set_skip_ops(&cfg.skip_ops);
            if cmd == "emit-plan" {
                // the explicit trace of one run of a batch, as JSON (used to turn a Miri stop into a replay file)
                let arm_id: u64 = opt("--stage").and_then(|s| s.parse().ok()).unwrap_or(0);
                let index: u64 = opt("--index").and_then(|s| s.parse().ok()).unwrap_or(0);
                let point: Option<usize> = opt("--point").and_then(|s| s.parse().ok());
                let Some(stage) = batch::stages(&cfg.property, &cfg.tier, cfg.scale).into_iter().find(|s| s.arm_id == arm_id) else { return ExitCode::from(2) };
                let mut plan = contain::plan_at(&cfg, &stage, index, point);
                plan.property = cfg.property.clone();
                plan.expect = Some(plan::Expect { class: opt("--class").unwrap_or_else(|| "UB".into()), detail: opt("--detail").unwrap_or_default() });
                println!("{}", serde_json::to_string_pretty(&plan).unwrap());
                return ExitCode::SUCCESS;
            }
            if cmd == "probe" {
                let arm_id = opt("--stage").and_then(|s| s.parse().ok()).unwrap_or(0);
                let from = opt("--from").and_then(|s| s.parse().ok()).unwrap_or(0);
                let to = opt("--to").and_then(|s| s.parse().ok()).unwrap_or(0);
                let points = match (opt("--point-from").and_then(|s| s.parse().ok()), opt("--point-to").and_then(|s| s.parse().ok())) {
                    (Some(a), Some(b)) => Some((a, b)),
                    _ => None,
                };
                return ExitCode::from(batch::probe(&cfg, arm_id, from, to, points));
            }
            if flag("--inproc") {
                ExitCode::from(batch::run(&cfg))
            } else {
                ExitCode::from(contain::supervise_run(&cfg))
            }
        }
        "replay" => {
            let Some(path) = args.get(1) else { return usage() };
            if flag("--inproc") {
                ExitCode::from(batch::replay(path, flag("--trace")))
            } else {
                ExitCode::from(contain::supervise_replay(path, flag("--trace")))
            }
        }
        "trace" => {
            let arm = opt("--arm").unwrap_or_else(|| "pipeline".into());
            let seed = opt("--seed").and_then(|s| s.parse().ok()).unwrap_or(1);
            let config = match opt("--config").as_deref() {
                Some("control") => plan::Config::Control,
                Some("benign") => plan::Config::Benign,
                _ => plan::Config::Destructive,
            };
            let codec = opt("--codec");
            let r = gen::Restrict { codec: codec.as_deref(), bits: opt("--bits").and_then(|s| s.parse().ok()) };
            let p = match arm.as_str() {
                "text" => gen::gen_text(seed, &r),
                "entropy" => gen::gen_entropy(seed, &r),
                _ => gen::gen_pipeline(seed, &[config], &r),
            };
            println!("{}", serde_json::to_string_pretty(&p).unwrap());
            let rep = engine::run_plan(&p, true);
            for l in rep.trace.unwrap_or_default() {
                println!("  {l}");
            }
            println!("outcome={} digest={:016x} violations={:?}", rep.outcome, rep.digest, rep.violations);
            ExitCode::SUCCESS
        }
        "digest" => {
            let property = opt("--property").unwrap_or_else(|| "C17".into());
            let runs: u64 = opt("--runs").and_then(|s| s.parse().ok()).unwrap_or(20000);
            let jobs: usize = opt("--jobs").and_then(|s| s.parse().ok()).unwrap_or(16);
            let seed = opt("--seed").and_then(|s| s.parse().ok()).unwrap_or(batch::DEFAULT_SEED);
            batch::digest(&property, runs, jobs, seed, flag("--per-run"));
            ExitCode::SUCCESS
        }
        "arms" => {
            for a in arms::ARMS {
                println!("{} flavours={} strict={}", a.name, a.flavours, a.strict);
            }
            ExitCode::SUCCESS
        }
        _ => usage(),
    }
}
