//! `history` arm (C04): the "histories" part of C04's quantifier. Values enter through a decoder
//! seam (`try_from_be_slice` on the record bytes), then a seeded client program applies a short
//! sequence of safe public operations to them; after EVERY step each resulting `Uint` is checked
//! for the canonical-limb invariant and for ==/Hash/cmp/min/max agreement with the integers
//! (`Ctx::observe`). Only those two oracles apply: whether an operation computes the right
//! number is the business of other (not applicable) properties and is NOT judged here, so no
//! arithmetic model is needed and none can be wrong. Panics of operations are ignored (division
//! by zero etc. are documented panics; a panic produces no value). This arm has no fault
//! dimension of its own; it exists because C04's invariant is a state invariant that must
//! survive every step of a run.
//!
//! plan.aux = [op, sel_a, sel_b, k] * steps.

use crate::ctx::{guard, Ctx, Guarded};
use crate::num::{self, Num};
use crate::plan::Plan;
use ruint::Uint;
use std::str::FromStr;

pub const NOPS: u64 = 116;
/// Operation kinds excluded from generated histories (`--skip-ops`): set by the supervisor after an
/// operation took the whole process down (abort / hang), which is outside C04's statement; the other
/// kinds are still judged. Applied when the plan is GENERATED, so every replay file stays exact.
static SKIP_OPS: [std::sync::atomic::AtomicU64; 2] = [std::sync::atomic::AtomicU64::new(0), std::sync::atomic::AtomicU64::new(0)];

pub fn set_skip_ops(ops: &[u64]) {
    let mut m = [0u64; 2];
    for &o in ops {
        if o < 128 {
            m[(o / 64) as usize] |= 1 << (o % 64);
        }
    }
    SKIP_OPS[0].store(m[0], std::sync::atomic::Ordering::Relaxed);
    SKIP_OPS[1].store(m[1], std::sync::atomic::Ordering::Relaxed);
}

pub fn op_skipped(op: u64) -> bool {
    let op = op % NOPS;
    op < 128 && SKIP_OPS[(op / 64) as usize].load(std::sync::atomic::Ordering::Relaxed) >> (op % 64) & 1 == 1
}

/// Remove the excluded operation kinds from a generated plan.
pub fn filter_plan(plan: &mut Plan) {
    if SKIP_OPS[0].load(std::sync::atomic::Ordering::Relaxed) | SKIP_OPS[1].load(std::sync::atomic::Ordering::Relaxed) == 0 {
        return;
    }
    let mut aux = Vec::with_capacity(plan.aux.len());
    for step in plan.aux.chunks(4) {
        if step.len() == 4 && !op_skipped(step[0]) {
            aux.extend_from_slice(step);
        }
    }
    plan.aux = aux;
}

/// Label of an operation kind (for notes and evidence).
pub fn op_name(op: u64) -> &'static str {
    let z = Uint::<64, 1>::ZERO;
    match guard(|| apply_all::<64, 1>(op % NOPS, z, z, 1).0) {
        Guarded::Ok(n) => n,
        _ => "?",
    }
}

/// Reach probe per operation kind ("history op NNN: label"), so that the evidence shows how often
/// each kind actually produced values.
fn op_probe(op: u64) -> &'static str {
    static NAMES: std::sync::OnceLock<Vec<&'static str>> = std::sync::OnceLock::new();
    NAMES.get_or_init(|| (0..NOPS).map(|o| &*Box::leak(format!("history op {o:03}: {}", op_name(o)).into_boxed_str())).collect())[(op % NOPS) as usize]
}

/// operations that are expensive on very wide types (skipped above 1024 bits)
fn heavy(op: u64) -> bool {
    matches!(op, 40..=52)
}

fn inv64(m0: u64) -> u64 {
    // -(m0^-1) mod 2^64 for odd m0 (Newton)
    let mut x = m0;
    for _ in 0..6 {
        x = x.wrapping_mul(2u64.wrapping_sub(m0.wrapping_mul(x)));
    }
    x.wrapping_neg()
}

/// Apply operation `op`; returns every `Uint` it produced and a label.
#[allow(clippy::too_many_lines)]
fn apply<const B: usize, const L: usize>(op: u64, a: Uint<B, L>, b: Uint<B, L>, k: u64) -> (&'static str, Vec<Uint<B, L>>) {
    // amounts and exponents are NOT confined to the "sensible" domain: out-of-range arguments must
    // still yield canonical values (or panic, which yields none)
    let sh = if k % 13 == 0 {
        usize::MAX - (k % 3) as usize
    } else if k % 13 == 1 {
        (k >> 4) as usize
    } else {
        (k % (2 * B as u64 + 3)) as usize
    };
    let small: Uint<B, L> = if k % 11 == 0 && B <= 256 { b } else { Uint::wrapping_from(k % 70) };
    let o = |x: Option<Uint<B, L>>| x.into_iter().collect::<Vec<_>>();
    match op {
        0 => ("wrapping_add", vec![a.wrapping_add(b)]),
        1 => ("wrapping_sub", vec![a.wrapping_sub(b)]),
        2 => ("wrapping_mul", vec![a.wrapping_mul(b)]),
        3 => ("wrapping_neg", vec![a.wrapping_neg()]),
        4 => ("overflowing_add", vec![a.overflowing_add(b).0]),
        5 => ("overflowing_sub", vec![a.overflowing_sub(b).0]),
        6 => ("overflowing_mul", vec![a.overflowing_mul(b).0]),
        7 => ("overflowing_neg", vec![a.overflowing_neg().0]),
        8 => ("saturating_add", vec![a.saturating_add(b)]),
        9 => ("saturating_sub", vec![a.saturating_sub(b)]),
        10 => ("saturating_mul", vec![a.saturating_mul(b)]),
        11 => ("checked_add", o(a.checked_add(b))),
        12 => ("checked_sub", o(a.checked_sub(b))),
        13 => ("checked_mul", o(a.checked_mul(b))),
        14 => ("checked_neg", o(a.checked_neg())),
        15 => ("abs_diff", vec![a.abs_diff(b)]),
        16 => ("inv_ring", o(a.inv_ring())),
        17 => ("inv_ring(odd)", o((a | Uint::wrapping_from(1u64)).inv_ring())),
        18 => ("checked_div", o(a.checked_div(b))),
        19 => ("checked_rem", o(a.checked_rem(b))),
        20 => ("div_rem", {
            let (q, r) = a.div_rem(b);
            vec![q, r]
        }),
        21 => ("div_ceil", vec![a.div_ceil(b)]),
        22 => ("wrapping_div", vec![a.wrapping_div(b)]),
        23 => ("wrapping_rem", vec![a.wrapping_rem(b)]),
        24 => ("not", vec![!a]),
        25 => ("bitand", vec![a & b]),
        26 => ("bitor", vec![a | b]),
        27 => ("bitxor", vec![a ^ b]),
        28 => ("reverse_bits", vec![a.reverse_bits()]),
        29 => ("shl", vec![a << sh]),
        30 => ("shr", vec![a >> sh]),
        31 => ("wrapping_shl", vec![a.wrapping_shl(sh)]),
        32 => ("wrapping_shr", vec![a.wrapping_shr(sh)]),
        33 => ("overflowing_shl", vec![a.overflowing_shl(sh).0]),
        34 => ("overflowing_shr", vec![a.overflowing_shr(sh).0]),
        35 => ("checked_shl", o(a.checked_shl(sh))),
        36 => ("checked_shr", o(a.checked_shr(sh))),
        37 => ("saturating_shl", vec![a.saturating_shl(sh)]),
        38 => ("arithmetic_shr", vec![a.arithmetic_shr(sh)]),
        39 => ("rotate", vec![a.rotate_left(sh), a.rotate_right(sh)]),
        40 => ("wrapping_pow", vec![a.wrapping_pow(small)]),
        41 => ("overflowing_pow", vec![a.overflowing_pow(small).0]),
        42 => ("saturating_pow", vec![a.saturating_pow(small)]),
        43 => ("checked_pow", o(a.checked_pow(small))),
        44 => ("root", vec![a.root((k % 8) as usize)]),
        45 => ("gcd", vec![a.gcd(b)]),
        46 => ("lcm", o(a.lcm(b))),
        47 => ("gcd_extended", {
            let (g, x, y, _) = a.gcd_extended(b);
            vec![g, x, y]
        }),
        48 => ("add_mod", vec![a.add_mod(b, small.wrapping_add(b))]),
        49 => ("mul_mod", vec![a.mul_mod(b, small.wrapping_add(a))]),
        50 => ("pow_mod", vec![a.pow_mod(small, b)]),
        51 => ("inv_mod", o(a.inv_mod(b))),
        52 => ("mul_redc", {
            // proper preconditions: odd modulus, operands reduced, inv = -m^-1 mod 2^64
            let m = b | Uint::wrapping_from(1u64);
            if L == 0 {
                vec![]
            } else {
                let inv = inv64(m.as_limbs()[0]);
                let (x, y) = (a.reduce_mod(m), small.reduce_mod(m));
                vec![x.mul_redc(y, m, inv), x.square_redc(m, inv)]
            }
        }),
        53 => ("reduce_mod", vec![a.reduce_mod(b)]),
        54 => ("next_power_of_two", o(a.checked_next_power_of_two())),
        55 => ("next_multiple_of", o(a.checked_next_multiple_of(b))),
        56 => ("set_bit", {
            // any index: in range, in the padding bits of the top limb, and beyond the limbs
            // (out-of-range indices are documented to do nothing)
            let mut x = a;
            x.set_bit((k % (64 * L as u64 + 70)) as usize, k & (1 << 20) == 0);
            let mut y = a;
            y.set_bit((k >> 8) as usize % (B + 1).max(1), k & (1 << 21) != 0);
            vec![x, y]
        }),
        57 => ("wrapping_from(u64)", vec![Uint::wrapping_from(k)]),
        58 => ("saturating_from(u64)", vec![Uint::saturating_from(k)]),
        59 => ("wrapping_from(u128)", vec![Uint::wrapping_from(u128::from(k) << 64 | u128::from(!k))]),
        60 => ("saturating_from(i64)", vec![Uint::saturating_from(k as i64), Uint::wrapping_from(k as i64)]),
        61 => ("try_from(u64)", Uint::<B, L>::try_from(k).ok().into_iter().collect()),
        62 => ("wrapping_from(f64)", vec![Uint::wrapping_from(k as f64 * 1.5), Uint::saturating_from(k as f64 * 0.75)]),
        63 => ("wrapping_from(Uint<256>)", {
            let src = Uint::<256, 4>::from_limbs([k, !k, k.rotate_left(17), k ^ 0xffff_0000_ffff_0000]);
            vec![Uint::wrapping_from(src), Uint::saturating_from(src)]
        }),
        64 => ("wrapping_from(Uint<100>)", {
            let src = Uint::<100, 2>::from_limbs([!k, k & 0xf_ffff_ffff]);
            vec![Uint::wrapping_from(src), Uint::saturating_from(src)]
        }),
        65 => ("wrapping_from(Uint<64>)", vec![Uint::wrapping_from(Uint::<64, 1>::from_limbs([k])), Uint::saturating_from(Uint::<63, 1>::from_limbs([k >> 1]))]),
        66 => ("wrapping_from_limbs_slice", {
            let mut words: Vec<u64> = a.as_limbs().iter().map(|x| !x).collect();
            match k % 3 {
                0 => {
                    words.pop();
                }
                1 => words.push(k),
                _ => {}
            }
            vec![Uint::wrapping_from_limbs_slice(&words)]
        }),
        67 => ("saturating_from_limbs_slice", {
            let mut words: Vec<u64> = a.as_limbs().iter().map(|x| x | k).collect();
            if k % 2 == 1 {
                words.push(k % 3);
            }
            vec![Uint::saturating_from_limbs_slice(&words)]
        }),
        68 => ("overflowing_from_limbs_slice", {
            let mut words: Vec<u64> = a.as_limbs().iter().map(|x| x ^ k).collect();
            if k % 4 == 1 {
                words.push(0);
            }
            if k % 4 == 2 {
                words.push(1);
            }
            vec![Uint::overflowing_from_limbs_slice(&words).0]
        }),
        69 => ("checked_from_limbs_slice", {
            let words: Vec<u64> = a.as_limbs().iter().map(|x| x.rotate_left((k % 64) as u32)).collect();
            o(Uint::checked_from_limbs_slice(&words))
        }),
        70 => ("from_limbs_slice", {
            let words: Vec<u64> = b.as_limbs().iter().take((k % (L as u64 + 1)) as usize).copied().collect();
            vec![Uint::from_limbs_slice(&words)]
        }),
        71 => ("be_bytes round trip", o(Uint::try_from_be_slice(&a.to_be_bytes_vec()))),
        72 => ("le_bytes_trimmed round trip", o(Uint::try_from_le_slice(&a.to_le_bytes_trimmed_vec()))),
        73 => ("hex string round trip", Uint::from_str(&format!("{a:#x}")).ok().into_iter().collect()),
        74 => ("decimal string round trip", Uint::from_str_radix(&a.to_string(), 10).ok().into_iter().collect()),
        75 => ("base round trip", {
            let base = (k % 65000).max(2);
            let d: Vec<u64> = a.to_base_le(base).collect();
            let mut v: Vec<Uint<B, L>> = Uint::from_base_le(base, d.iter().copied()).ok().into_iter().collect();
            v.extend(Uint::from_base_be(base, d.iter().rev().copied()).ok());
            v
        }),
        76 => ("sum/product", {
            let xs = [a, b, small];
            vec![xs.iter().copied().fold(Uint::ZERO, |s: Uint<B, L>, x| s.wrapping_add(x)), xs.iter().copied().fold(small, |s, x| s.wrapping_mul(x))]
        }),
        77 => ("add_assign", {
            let mut x = a;
            x += b;
            let mut y = a;
            y -= b;
            let mut z = a;
            z *= b;
            vec![x, y, z]
        }),
        78 => ("bit assign", {
            let mut x = a;
            x &= b;
            let mut y = a;
            y |= b;
            let mut z = a;
            z ^= b;
            vec![x, y, z]
        }),
        79 => ("shift assign", {
            let mut x = a;
            x <<= sh;
            let mut y = a;
            y >>= sh;
            vec![x, y]
        }),
        80 => ("div/rem operators", if b.is_zero() { vec![] } else { vec![a / b, a % b] }),
        81 => ("constants", vec![Uint::MAX, Uint::ZERO, Uint::MIN, Uint::<B, L>::MAX.wrapping_add(a)]),
        82 => ("min/max/clamp", vec![a.min(b), a.max(b), a.clamp(a.min(b), a.max(b))]),
        83 => ("Bits round trip", {
            let bits = ruint::Bits::from(a);
            vec![(!bits).into_inner(), (bits & ruint::Bits::from(b)).into_inner(), (bits << sh).into_inner(), (bits >> sh).into_inner()]
        }),
        84 => ("Bits rotate/reverse", {
            let bits = ruint::Bits::from(a);
            vec![bits.rotate_left(sh).into_inner(), bits.rotate_right(sh).into_inner(), bits.reverse_bits().into_inner()]
        }),
        85 => ("neg operator", vec![-a]),
        86 => ("pow operator-like", vec![a.pow(Uint::wrapping_from(k % 5))]),
        87 => ("from_limbs(masked)", {
            let mut l = *a.as_limbs();
            if L > 0 {
                l[L - 1] = k & Uint::<B, L>::MASK;
            }
            vec![Uint::from_limbs(l)]
        }),
        88 => ("approx_pow2", {
            // exponents on both sides of BITS, whole (exactly BITS included) and fractional, and the
            // approx_log2 of an earlier value fed back in
            let whole = (k % (B as u64 + 8)) as f64;
            let frac = [0.0, 0.3, 0.5, 0.999_999, -0.25, 0.0][(k >> 32) as usize % 6];
            let mut v = o(Uint::<B, L>::approx_pow2(whole + frac));
            v.extend(Uint::<B, L>::approx_pow2(a.approx_log2()));
            v.extend(Uint::<B, L>::approx_pow2(a.approx_log2().ceil()));
            v.extend(Uint::<B, L>::approx_pow2(B as f64 - frac));
            v
        }),
        89 => ("try_from(u128)", Uint::<B, L>::try_from(u128::from(k) * u128::from(k)).ok().into_iter().collect()),
        90 => ("try_from(f64)", Uint::<B, L>::try_from((k % 100000) as f64 + 0.5).ok().into_iter().collect()),
        93 => ("by-reference operators", vec![&a + &b, &a - &b, &a * &b, a + &b, &a - b, a * &b, &a & &b, &a | &b, &a ^ &b, !&a, -&a]),
        94 => ("div/rem assign and by-reference", {
            if b.is_zero() {
                vec![]
            } else {
                let mut x = a;
                x /= b;
                let mut y = a;
                y %= b;
                let mut z = a;
                z /= &b;
                vec![x, y, z, &a / &b, &a % &b]
            }
        }),
        95 => ("Sum / Product traits", {
            let xs = [a, b, small];
            vec![xs.iter().sum(), xs.iter().product(), xs.into_iter().sum(), xs.into_iter().product()]
        }),
        96 => ("shift by Uint / by reference / other integer types", {
            let amt: Uint<B, L> = Uint::wrapping_from(sh as u64);
            let mut x = a;
            x <<= amt;
            let mut y = a;
            y >>= amt;
            let mut z = a;
            z <<= sh as u32 as usize;
            vec![a << amt, a >> amt, a << &amt, a >> &amt, a << &sh, a >> &sh, a << (sh as u8), a >> (sh as u16), a << (sh as u32), a >> (sh as u64), x, y, z]
        }),
        97 => ("by-reference assign operators", {
            let mut x = a;
            x += &b;
            let mut y = a;
            y -= &b;
            let mut z = a;
            z *= &b;
            let mut w = a;
            w &= &b;
            w |= &small;
            w ^= &a;
            vec![x, y, z, w]
        }),
        98 => ("Bits assign operators", {
            let mut x = ruint::Bits::from(a);
            x &= ruint::Bits::from(b);
            let mut y = ruint::Bits::from(a);
            y |= ruint::Bits::from(b);
            let mut z = ruint::Bits::from(a);
            z ^= ruint::Bits::from(b);
            let mut w = ruint::Bits::from(a);
            w <<= sh;
            let mut v = ruint::Bits::from(a);
            v >>= sh;
            vec![x.into_inner(), y.into_inner(), z.into_inner(), w.into_inner(), v.into_inner()]
        }),
        91 => ("from_be_slice / from_le_slice (raw bytes)", {
            // possibly out-of-range bytes: the panicking constructors must panic or return a canonical value
            let mut bytes = (!a).to_be_bytes_vec();
            if let Some(first) = bytes.first_mut() {
                *first |= k as u8;
            }
            let le: Vec<u8> = bytes.iter().rev().copied().collect();
            let mut v = vec![];
            v.extend(Uint::<B, L>::try_from_le_slice(&le));
            v.push(Uint::from_be_slice(&bytes));
            v.push(Uint::from_le_slice(&le));
            v
        }),
        // constructors documented to reject out-of-range limbs: whatever they return must be canonical
        // (a panic is the documented rejection and yields no value)
        _ => ("from_limbs(raw top limb)", {
            let mut l = *a.as_limbs();
            if L > 0 {
                l[L - 1] = k;
            }
            let mut v = vec![Uint::from_limbs(l)];
            v.extend(Uint::checked_from_limbs_slice(&l));
            v
        }),
    }
}

/// A `Uint` of ANOTHER width produced by an operation (cross-width conversions, `widening_mul`,
/// fixed-size byte-array constructors): only the canonical-limb invariant is judged.
pub struct Foreign {
    pub what: &'static str,
    pub bits: usize,
    pub n: Num,
    pub canon: bool,
    /// set when a constructor documented to REJECT out-of-range limbs returned a value instead
    pub noreject: bool,
}

/// A rejecting constructor accepted out-of-range limbs (`NOREJECT`): C04's clause "constructors that
/// are documented to reject out-of-range limbs do so (panic or None)". `limbs` is what it was given.
fn accepted<const B: usize, const L: usize>(what: &'static str, u: Uint<B, L>) -> Foreign {
    let (n, _) = num::observe(&u);
    Foreign { what, bits: B, n, canon: true, noreject: true }
}

fn fo<const B2: usize, const L2: usize>(what: &'static str, u: Uint<B2, L2>) -> Foreign {
    let (n, canon) = num::observe(&u);
    Foreign { what, bits: B2, n, canon, noreject: false }
}

/// Run a piece that may panic on its own (documented panics) without losing the rest of the group.
fn t<T>(f: impl FnOnce() -> Vec<T>) -> Vec<T> {
    match guard(f) {
        Guarded::Ok(v) => v,
        _ => vec![],
    }
}

/// Operations 99..: trait impls of the num-traits / num-integer / subtle / zeroize integrations,
/// conversions from every primitive type, cross-width conversions, `widening_mul`, the `Bits`
/// forwarders and the fixed-size byte-array constructors.
#[allow(clippy::too_many_lines)]
fn apply2<const B: usize, const L: usize>(op: u64, a: Uint<B, L>, b: Uint<B, L>, k: u64) -> (&'static str, Vec<Uint<B, L>>, Vec<Foreign>) {
    use num_integer::Integer;
    use num_traits as nt;
    type U<const B: usize, const L: usize> = Uint<B, L>;
    let sh32 = if k % 13 == 0 { u32::MAX - (k % 3) as u32 } else if k % 13 == 1 { (k >> 4) as u32 } else { (k % (2 * B as u64 + 3)) as u32 };
    let o = |x: Option<Uint<B, L>>| x.into_iter().collect::<Vec<_>>();
    let mut f: Vec<Foreign> = vec![];
    let (name, v): (&'static str, Vec<Uint<B, L>>) = match op {
        99 => ("num-traits checked / wrapping / saturating / overflowing traits", {
            let mut v = vec![];
            v.extend(nt::CheckedAdd::checked_add(&a, &b));
            v.extend(nt::CheckedSub::checked_sub(&a, &b));
            v.extend(nt::CheckedMul::checked_mul(&a, &b));
            v.extend(t(|| o(nt::CheckedDiv::checked_div(&a, &b))));
            v.extend(t(|| o(nt::CheckedRem::checked_rem(&a, &b))));
            v.extend(nt::CheckedNeg::checked_neg(&a));
            v.extend(t(|| o(nt::CheckedShl::checked_shl(&a, sh32))));
            v.extend(t(|| o(nt::CheckedShr::checked_shr(&a, sh32))));
            v.push(nt::WrappingAdd::wrapping_add(&a, &b));
            v.push(nt::WrappingSub::wrapping_sub(&a, &b));
            v.push(nt::WrappingMul::wrapping_mul(&a, &b));
            v.push(nt::WrappingNeg::wrapping_neg(&a));
            v.extend(t(|| vec![nt::WrappingShl::wrapping_shl(&a, sh32), nt::WrappingShr::wrapping_shr(&a, sh32)]));
            v.push(nt::ops::overflowing::OverflowingAdd::overflowing_add(&a, &b).0);
            v.push(nt::ops::overflowing::OverflowingSub::overflowing_sub(&a, &b).0);
            v.push(nt::ops::overflowing::OverflowingMul::overflowing_mul(&a, &b).0);
            v.push(nt::Saturating::saturating_add(a, b));
            v.push(nt::Saturating::saturating_sub(a, b));
            v.push(nt::SaturatingAdd::saturating_add(&a, &b));
            v.push(nt::SaturatingSub::saturating_sub(&a, &b));
            v.push(nt::SaturatingMul::saturating_mul(&a, &b));
            v
        }),
        100 => ("num-traits PrimInt shifts / rotates / pow", {
            let mut v = vec![];
            v.extend(t(|| vec![nt::PrimInt::rotate_left(a, sh32), nt::PrimInt::rotate_right(a, sh32)]));
            v.extend(t(|| vec![nt::PrimInt::signed_shl(a, sh32), nt::PrimInt::unsigned_shl(a, sh32)]));
            v.extend(t(|| vec![nt::PrimInt::signed_shr(a, sh32), nt::PrimInt::unsigned_shr(a, sh32)]));
            v.extend(t(|| vec![nt::PrimInt::reverse_bits(a)]));
            v.extend(t(|| vec![nt::PrimInt::pow(a, (k % 7) as u32)]));
            v.extend(t(|| vec![nt::PrimInt::from_le(a), nt::PrimInt::to_le(a)]));
            v
        }),
        // not well defined unless BITS % 8 == 0 (documented); whatever comes back must be canonical
        101 => ("num-traits swap_bytes / from_be / to_be", {
            let mut v = vec![];
            v.extend(t(|| vec![nt::PrimInt::swap_bytes(a)]));
            v.extend(t(|| vec![nt::PrimInt::from_be(a)]));
            v.extend(t(|| vec![nt::PrimInt::to_be(b)]));
            v
        }),
        102 => ("num-traits FromPrimitive / NumCast / Num / Bounded / Zero / One", {
            let wide = u128::from(k) << 64 | u128::from(!k);
            let mut v = vec![];
            v.extend(<U<B, L> as nt::FromPrimitive>::from_u64(k));
            v.extend(<U<B, L> as nt::FromPrimitive>::from_i64(k as i64));
            v.extend(<U<B, L> as nt::FromPrimitive>::from_u128(wide));
            v.extend(<U<B, L> as nt::FromPrimitive>::from_i128(wide as i128));
            v.extend(<U<B, L> as nt::FromPrimitive>::from_u8(k as u8));
            v.extend(<U<B, L> as nt::FromPrimitive>::from_i16(k as i16));
            v.extend(<U<B, L> as nt::FromPrimitive>::from_usize(k as usize));
            v.extend(t(|| o(<U<B, L> as nt::FromPrimitive>::from_f64(k as f64 * 0.37))));
            v.extend(t(|| o(<U<B, L> as nt::FromPrimitive>::from_f32((k >> 20) as f32))));
            v.extend(<U<B, L> as nt::NumCast>::from(k));
            v.extend(<U<B, L> as nt::NumCast>::from(wide));
            v.extend(<U<B, L> as nt::NumCast>::from(k as u8));
            v.extend(t(|| o(<U<B, L> as nt::NumCast>::from(k as f64))));
            v.extend(t(|| o(<U<B, L> as nt::NumCast>::from(-(k as i64 >> 1)))));
            let radix = (k % 35 + 2) as u32;
            let text: String = a.to_base_be(u64::from(radix)).map(|d| std::char::from_digit(d as u32, radix).unwrap_or('?')).collect();
            v.extend(t(|| <U<B, L> as nt::Num>::from_str_radix(&text, radix).ok().into_iter().collect()));
            v.extend(t(|| <U<B, L> as nt::Num>::from_str_radix(&format!("{text}{}", k % 10), 10).ok().into_iter().collect()));
            v.push(<U<B, L> as nt::Bounded>::min_value());
            v.push(<U<B, L> as nt::Bounded>::max_value());
            v.push(<U<B, L> as nt::Zero>::zero());
            v.extend(t(|| vec![<U<B, L> as nt::One>::one()]));
            v
        }),
        103 => ("num-traits FromBytes (raw bytes)", {
            // panics when the bytes are out of range (unwrap of try_from_*_slice); never a non-canonical value
            let mut bytes = (!a).to_be_bytes_vec();
            if let Some(first) = bytes.first_mut() {
                *first |= k as u8;
            }
            let le: Vec<u8> = bytes.iter().rev().copied().collect();
            let mut v = vec![];
            v.extend(t(|| vec![<U<B, L> as nt::FromBytes>::from_be_bytes(&bytes)]));
            v.extend(t(|| vec![<U<B, L> as nt::FromBytes>::from_le_bytes(&le)]));
            v.extend(t(|| vec![<U<B, L> as nt::FromBytes>::from_be_bytes(&nt::ToBytes::to_be_bytes(&b))]));
            v.extend(t(|| vec![<U<B, L> as nt::FromBytes>::from_le_bytes(&nt::ToBytes::to_le_bytes(&b))]));
            v
        }),
        104 => ("num-traits Inv / MulAdd / Euclid / Pow", {
            let mut v = vec![];
            v.extend(t(|| o(nt::Inv::inv(a))));
            v.extend(t(|| vec![nt::MulAdd::mul_add(a, b, Uint::wrapping_from(k))]));
            v.extend(t(|| {
                let mut x = a;
                nt::MulAddAssign::mul_add_assign(&mut x, b, Uint::wrapping_from(k));
                vec![x]
            }));
            v.extend(t(|| vec![nt::Euclid::div_euclid(&a, &b), nt::Euclid::rem_euclid(&a, &b)]));
            v.extend(t(|| o(nt::CheckedEuclid::checked_div_euclid(&a, &b))));
            v.extend(t(|| o(nt::CheckedEuclid::checked_rem_euclid(&a, &b))));
            if B <= 1024 {
                v.extend(t(|| vec![nt::Pow::pow(a, Uint::<B, L>::wrapping_from(k % 9))]));
            }
            v
        }),
        105 => ("num-integer Integer", {
            let mut v = vec![];
            v.extend(t(|| vec![Integer::div_floor(&a, &b), Integer::mod_floor(&a, &b)]));
            if B <= 1024 {
                v.extend(t(|| vec![Integer::gcd(&a, &b)]));
                v.extend(t(|| vec![Integer::lcm(&a, &b)]));
                v.extend(t(|| {
                    let e = Integer::extended_gcd(&a, &b);
                    vec![e.gcd, e.x, e.y]
                }));
            }
            v.extend(t(|| {
                let (q, r) = Integer::div_rem(&a, &b);
                vec![q, r]
            }));
            v.extend(t(|| vec![Integer::div_ceil(&a, &b)]));
            v.extend(t(|| {
                let (q, r) = Integer::div_mod_floor(&a, &b);
                vec![q, r]
            }));
            v.extend(t(|| vec![Integer::next_multiple_of(&a, &b)]));
            v.extend(t(|| vec![Integer::prev_multiple_of(&a, &b)]));
            v.extend(t(|| {
                let mut x = a;
                Integer::inc(&mut x);
                vec![x]
            }));
            v.extend(t(|| {
                let mut x = a;
                Integer::dec(&mut x);
                vec![x]
            }));
            // at the ends of the range
            v.extend(t(|| {
                let mut x = Uint::<B, L>::MAX;
                Integer::inc(&mut x);
                vec![x]
            }));
            v.extend(t(|| {
                let mut x = Uint::<B, L>::ZERO;
                Integer::dec(&mut x);
                vec![x]
            }));
            v
        }),
        106 => ("subtle conditional select / assign / swap / negate", {
            use subtle::{Choice, ConditionallyNegatable, ConditionallySelectable};
            let c = Choice::from((k & 1) as u8);
            let mut v = vec![U::conditional_select(&a, &b, c), U::conditional_select(&a, &b, !c)];
            let mut x = a;
            x.conditional_assign(&b, c);
            v.push(x);
            let (mut y, mut z) = (a, b);
            U::conditional_swap(&mut y, &mut z, c);
            v.push(y);
            v.push(z);
            let mut n = a;
            n.conditional_negate(c);
            v.push(n);
            let mut m = b;
            m.conditional_negate(!c);
            v.push(m);
            v
        }),
        107 => ("zeroize", {
            use zeroize::Zeroize;
            let mut x = a;
            x.zeroize();
            let mut y = ruint::Bits::from(!b);
            y.zeroize();
            let mut z = ruint::Bits::from(b);
            *z.as_uint_mut() = !a;
            vec![x, y.into_inner(), z.into_inner()]
        }),
        108 => ("conversions from every primitive type", {
            let mut v = vec![];
            macro_rules! prim {
                ($($ty:ty),*) => {$(
                    v.extend(U::<B, L>::try_from(k as $ty).ok());
                    v.push(U::<B, L>::wrapping_from(k as $ty));
                    v.push(U::<B, L>::saturating_from(k as $ty));
                    v.extend(U::<B, L>::try_from((k >> 32) as $ty).ok());
                )*};
            }
            prim!(u8, u16, u32, u64, usize, u128, i8, i16, i32, i64, isize, i128);
            v.extend(U::<B, L>::try_from(k & 1 == 1).ok());
            v.push(U::<B, L>::wrapping_from(k & 2 == 2));
            v.push(U::<B, L>::saturating_from(true));
            let big = u128::from(k).wrapping_mul(0x1_0000_0001_0000_0001_0000_0001);
            v.extend(U::<B, L>::try_from(big).ok());
            v.push(U::<B, L>::wrapping_from(big));
            v.push(U::<B, L>::saturating_from(big));
            v.push(U::<B, L>::wrapping_from(big as i128));
            v.push(U::<B, L>::saturating_from(big as i128));
            for x in [k as f32, (k >> 40) as f32 + 0.5, f32::MAX, f32::from_bits(k as u32)] {
                v.extend(t(|| U::<B, L>::try_from(x).ok().into_iter().collect()));
                v.extend(t(|| vec![U::<B, L>::wrapping_from(x), U::<B, L>::saturating_from(x)]));
            }
            for x in [f64::from_bits(k), (k as f64) * 1e30, f64::MAX, -0.4, 0.5] {
                v.extend(t(|| U::<B, L>::try_from(x).ok().into_iter().collect()));
                v.extend(t(|| vec![U::<B, L>::wrapping_from(x), U::<B, L>::saturating_from(x)]));
            }
            v
        }),
        // the panicking forms (to, from, from_uint) live in operation 113: their panic message formats
        // the rejected value, so a defect there can take the process down before anything is observed
        109 => ("cross-width conversions (wrapping_to / saturating_to / wrapping_from / saturating_from / checked_from_uint)", {
            macro_rules! cross {
                ($(($bb:literal, $ll:literal)),*) => {$(
                    f.push(fo("wrapping_to::<Uint>", a.wrapping_to::<U<$bb, $ll>>()));
                    f.push(fo("saturating_to::<Uint>", a.saturating_to::<U<$bb, $ll>>()));
                    f.push(fo("wrapping_from(Uint)", U::<$bb, $ll>::wrapping_from(b)));
                    f.push(fo("saturating_from(Uint)", U::<$bb, $ll>::saturating_from(b)));
                    #[allow(deprecated)]
                    {
                        f.extend(U::<$bb, $ll>::checked_from_uint(b).map(|u| fo("checked_from_uint", u)));
                    }
                )*};
            }
            cross!((0, 0), (1, 1), (7, 1), (63, 1), (64, 1), (65, 2), (100, 2), (127, 2), (129, 3), (200, 4), (255, 4), (256, 4), (300, 5));
            // and into this width from fixed other widths
            let s1 = U::<128, 2>::from_limbs([k, !k]);
            let s2 = U::<70, 2>::from_limbs([!k, k & 0x3f]);
            let s3 = U::<64, 1>::from_limbs([k]);
            let s4 = U::<320, 5>::from_limbs([k, 0, !k, 0, k]);
            let mut v = vec![];
            macro_rules! into_self {
                ($($s:expr),*) => {$(
                    v.push($s.wrapping_to::<U<B, L>>());
                    v.push($s.saturating_to::<U<B, L>>());
                    v.push(U::<B, L>::wrapping_from($s));
                    v.push(U::<B, L>::saturating_from($s));
                    #[allow(deprecated)]
                    {
                        v.extend(U::<B, L>::checked_from_uint($s));
                    }
                )*};
            }
            into_self!(s1, s2, s3, s4);
            v
        }),
        110 => ("widening_mul (fixed width pairs)", {
            let x = a.as_limbs().first().copied().unwrap_or(k);
            let y = b.as_limbs().last().copied().unwrap_or(!k);
            let m100 = U::<100, 2>::from_limbs([x, y & 0xf_ffff_ffff]);
            let m63 = U::<63, 1>::from_limbs([y >> 1]);
            let m64 = U::<64, 1>::from_limbs([x ^ k]);
            let m65 = U::<65, 2>::from_limbs([y, k & 1]);
            let m127 = U::<127, 2>::from_limbs([k, x >> 1]);
            let m1 = U::<1, 1>::from_limbs([k & 1]);
            let m200 = U::<200, 4>::from_limbs([x, y, k, x & 0xff]);
            let m56 = U::<56, 1>::from_limbs([y >> 8]);
            f.push(fo("widening_mul 100x63", m100.widening_mul::<63, 1, 163, 3>(m63)));
            f.push(fo("widening_mul 64x64", m64.widening_mul::<64, 1, 128, 2>(U::<64, 1>::from_limbs([y]))));
            f.push(fo("widening_mul 65x65", m65.widening_mul::<65, 2, 130, 3>(U::<65, 2>::MAX)));
            f.push(fo("widening_mul 127x1", m127.widening_mul::<1, 1, 128, 2>(m1)));
            f.push(fo("widening_mul 200x56", m200.widening_mul::<56, 1, 256, 4>(m56)));
            f.push(fo("widening_mul 63x1", m63.widening_mul::<1, 1, 64, 1>(m1)));
            f.push(fo("widening_mul 1x1", m1.widening_mul::<1, 1, 2, 1>(U::<1, 1>::MAX)));
            f.push(fo("widening_mul 100x100", U::<100, 2>::MAX.widening_mul::<100, 2, 200, 4>(m100)));
            f.push(fo("widening_mul 127x65", U::<127, 2>::MAX.widening_mul::<65, 2, 192, 3>(U::<65, 2>::MAX)));
            f.push(fo("widening_mul 0x63", U::<0, 0>::ZERO.widening_mul::<63, 1, 63, 1>(m63)));
            vec![]
        }),
        111 => ("Bits forwarded constructors and shifts", {
            use ruint::Bits;
            let sh = if k % 13 == 0 { usize::MAX - (k % 3) as usize } else { (k % (2 * B as u64 + 3)) as usize };
            let ba = Bits::from(a);
            let mut v = vec![];
            v.extend(ba.checked_shl(sh).map(Bits::into_inner));
            v.extend(ba.checked_shr(sh).map(Bits::into_inner));
            v.push(ba.overflowing_shl(sh).0.into_inner());
            v.push(ba.overflowing_shr(sh).0.into_inner());
            v.push(ba.wrapping_shl(sh).into_inner());
            v.push(ba.wrapping_shr(sh).into_inner());
            let mut raw = (!a).to_be_bytes_vec();
            if let Some(first) = raw.first_mut() {
                *first |= k as u8;
            }
            let le: Vec<u8> = raw.iter().rev().copied().collect();
            v.extend(Bits::<B, L>::try_from_be_slice(&raw).map(Bits::into_inner));
            v.extend(Bits::<B, L>::try_from_le_slice(&le).map(Bits::into_inner));
            v.extend(Bits::<B, L>::from_str_radix(&format!("{b:x}{:x}", k % 16), 16).ok().map(Bits::into_inner));
            let mut l = *b.as_limbs();
            if L > 0 {
                l[L - 1] ^= k;
            }
            v.extend(t(|| vec![Bits::<B, L>::from_limbs(l).into_inner()]));
            v.push((!&ba).into_inner());
            v.push((ba & &Bits::from(b)).into_inner());
            v.push((ba | &Bits::from(b)).into_inner());
            v.push((ba ^ &Bits::from(b)).into_inner());
            v.push(<Uint<B, L> as From<Bits<B, L>>>::from(ba));
            v.push(*ba.as_uint());
            v
        }),
        113 => ("cross-width conversions, panicking forms (to / from / from_uint)", {
            macro_rules! cross {
                ($(($bb:literal, $ll:literal)),*) => {$(
                    f.extend(t(|| vec![fo("to::<Uint>", a.to::<U<$bb, $ll>>())]));
                    f.extend(t(|| vec![fo("from(Uint)", U::<$bb, $ll>::from(b))]));
                    #[allow(deprecated)]
                    {
                        f.extend(t(|| vec![fo("from_uint", U::<$bb, $ll>::from_uint(a))]));
                    }
                )*};
            }
            cross!((0, 0), (1, 1), (7, 1), (63, 1), (64, 1), (65, 2), (100, 2), (127, 2), (129, 3), (200, 4), (255, 4), (256, 4), (300, 5));
            let s1 = U::<128, 2>::from_limbs([k, !k]);
            let s2 = U::<70, 2>::from_limbs([!k, k & 0x3f]);
            let s3 = U::<64, 1>::from_limbs([k]);
            let s4 = U::<320, 5>::from_limbs([k, 0, !k, 0, k]);
            let mut v = vec![];
            macro_rules! into_self {
                ($($s:expr),*) => {$(
                    v.extend(t(|| vec![$s.to::<U<B, L>>()]));
                    v.extend(t(|| vec![U::<B, L>::from($s)]));
                    #[allow(deprecated)]
                    {
                        v.extend(t(|| vec![U::<B, L>::from_uint($s)]));
                    }
                )*};
            }
            into_self!(s1, s2, s3, s4);
            v
        }),
        114 => ("conversions from primitive types, panicking form (Uint::from)", {
            let mut v = vec![];
            macro_rules! prim {
                ($($ty:ty),*) => {$(
                    v.extend(t(|| vec![<U<B, L>>::from(k as $ty)]));
                    v.extend(t(|| vec![<U<B, L>>::from((k >> 40) as $ty)]));
                )*};
            }
            prim!(u8, u16, u32, u64, usize, u128, i8, i16, i32, i64, isize, i128);
            v.extend(t(|| vec![<U<B, L>>::from(k & 1 == 1)]));
            v.extend(t(|| vec![<U<B, L>>::from(k as f64)]));
            v.extend(t(|| vec![<U<B, L>>::from((k >> 30) as f32)]));
            v
        }),
        115 => ("rejecting constructors given out-of-range limbs", {
            // from_limbs / from_limbs_slice are documented to panic and checked_from_limbs_slice to return
            // None when the limbs denote a value >= 2^BITS. The harness builds limbs that are DEFINITELY out
            // of range (a bit at a position >= BITS inside the top limb, or a non-zero limb beyond LIMBS) and
            // reports every constructor that hands back a value (canonical or not) instead of rejecting.
            let mut l = *a.as_limbs();
            let pad = 64 * L - B; // unused bits in the top limb
            if L > 0 && pad > 0 {
                l[L - 1] |= 1u64 << (B % 64 + (k % pad as u64) as usize);
                if k & (1 << 9) != 0 {
                    l[L - 1] |= !Uint::<B, L>::MASK & b.as_limbs()[0].rotate_left((k % 64) as u32);
                }
                if let Guarded::Ok(u) = guard(|| Uint::<B, L>::from_limbs(l)) {
                    f.push(accepted("from_limbs(top limb above MASK)", u));
                }
                if let Guarded::Ok(u) = guard(|| Uint::<B, L>::from_limbs_slice(&l)) {
                    f.push(accepted("from_limbs_slice(top limb above MASK)", u));
                }
                if let Guarded::Ok(Some(u)) = guard(|| Uint::<B, L>::checked_from_limbs_slice(&l)) {
                    f.push(accepted("checked_from_limbs_slice(top limb above MASK)", u));
                }
                // the same limbs followed by zero limbs are still out of range
                let mut longer = l.to_vec();
                longer.extend(std::iter::repeat(0).take(1 + (k % 3) as usize));
                if let Guarded::Ok(u) = guard(|| Uint::<B, L>::from_limbs_slice(&longer)) {
                    f.push(accepted("from_limbs_slice(top limb above MASK, zero tail)", u));
                }
                if let Guarded::Ok(Some(u)) = guard(|| Uint::<B, L>::checked_from_limbs_slice(&longer)) {
                    f.push(accepted("checked_from_limbs_slice(top limb above MASK, zero tail)", u));
                }
            }
            // in-range limbs followed by a non-zero limb somewhere beyond LIMBS: value >= 2^(64*LIMBS)
            let mut tail = a.as_limbs().to_vec();
            let extra = 1 + (k >> 12) as usize % 3;
            let at = (k >> 16) as usize % extra;
            for i in 0..extra {
                tail.push(if i == at { (k >> 20) | 1 << (k % 64) } else if k & (1 << 10) != 0 { 0 } else { b.as_limbs().first().copied().unwrap_or(0) });
            }
            if let Guarded::Ok(u) = guard(|| Uint::<B, L>::from_limbs_slice(&tail)) {
                f.push(accepted("from_limbs_slice(non-zero limb beyond LIMBS)", u));
            }
            if let Guarded::Ok(Some(u)) = guard(|| Uint::<B, L>::checked_from_limbs_slice(&tail)) {
                f.push(accepted("checked_from_limbs_slice(non-zero limb beyond LIMBS)", u));
            }
            // control: the constructors must still ACCEPT what is in range (canonical limbs, short slices,
            // zero tails) - returned as ordinary values for the canonical-limb / ordering oracles
            let mut ok = a.as_limbs().to_vec();
            ok.extend(std::iter::repeat(0).take((k % 3) as usize));
            let mut v = vec![];
            v.extend(t(|| vec![Uint::<B, L>::from_limbs(*a.as_limbs()), Uint::<B, L>::from_limbs_slice(&ok)]));
            v.extend(t(|| o(Uint::<B, L>::checked_from_limbs_slice(&ok))));
            v
        }),
        _ => ("fixed-size byte-array constructors", {
            // from_be_bytes / from_le_bytes take [u8; BYTES]: BYTES cannot be named generically, so
            // fixed widths; they panic on out-of-range bytes, never return a non-canonical value
            let kb = k.to_le_bytes();
            let x = a.as_limbs().first().copied().unwrap_or(!k).to_le_bytes();
            let mut b32 = [0u8; 32];
            for (i, by) in b32.iter_mut().enumerate() {
                *by = kb[i % 8] ^ x[(i / 8) % 8];
            }
            f.extend(t(|| vec![fo("from_be_bytes<2> U12", U::<12, 1>::from_be_bytes::<2>([kb[0], kb[1]]))]));
            f.extend(t(|| vec![fo("from_le_bytes<2> U12", U::<12, 1>::from_le_bytes::<2>([kb[0], kb[1] & 0x1f]))]));
            f.extend(t(|| vec![fo("from_be_bytes<8> U63", U::<63, 1>::from_be_bytes::<8>(kb))]));
            f.extend(t(|| vec![fo("from_le_bytes<8> U63", U::<63, 1>::from_le_bytes::<8>(kb))]));
            f.extend(t(|| vec![fo("from_be_bytes<8> U57", U::<57, 1>::from_be_bytes::<8>(x))]));
            f.extend(t(|| vec![fo("from_be_bytes<32> U255", U::<255, 4>::from_be_bytes::<32>(b32))]));
            f.extend(t(|| vec![fo("from_le_bytes<32> U250", U::<250, 4>::from_le_bytes::<32>(b32))]));
            f.extend(t(|| vec![fo("from_be_bytes<32> U256", U::<256, 4>::from_be_bytes::<32>(b32))]));
            let mut b13 = [0u8; 13];
            b13.copy_from_slice(&b32[..13]);
            f.extend(t(|| vec![fo("from_be_bytes<13> U100", U::<100, 2>::from_be_bytes::<13>(b13))]));
            f.extend(t(|| vec![fo("from_le_bytes<13> U100", U::<100, 2>::from_le_bytes::<13>(b13))]));
            f.extend(t(|| vec![fo("from_le_bytes<1> U1", U::<1, 1>::from_le_bytes::<1>([kb[2] & 3]))]));
            f.extend(t(|| vec![fo("Bits::from_be_bytes<8> U63", ruint::Bits::<63, 1>::from_be_bytes::<8>(kb).into_inner())]));
            f.extend(t(|| vec![fo("Bits::from_le_bytes<32> U255", ruint::Bits::<255, 4>::from_le_bytes::<32>(b32).into_inner())]));
            vec![]
        }),
    };
    (name, v, f)
}

fn apply_all<const B: usize, const L: usize>(op: u64, a: Uint<B, L>, b: Uint<B, L>, k: u64) -> (&'static str, Vec<Uint<B, L>>, Vec<Foreign>) {
    if op >= 99 {
        apply2::<B, L>(op, a, b, k)
    } else {
        let (name, v) = apply::<B, L>(op, a, b, k);
        (name, v, vec![])
    }
}

pub fn run<const B: usize, const L: usize>(ctx: &mut Ctx, plan: &Plan) {
    // values enter through the byte-slice decoder
    let mut values: Vec<Uint<B, L>> = vec![];
    for (i, r) in plan.records.iter().enumerate() {
        if !num::fits(r, B) {
            ctx.violate("HARNESS", "history: record does not fit the width");
            return;
        }
        ctx.seam("H-DECODE", i as u64, r.len() as u64);
        match guard(|| Uint::<B, L>::try_from_be_slice(r)) {
            Guarded::Ok(Some(u)) => {
                ctx.observe("try_from_be_slice", &u);
                values.push(u);
            }
            _ => values.push(num::to_uint(r)),
        }
    }
    if values.is_empty() {
        values.push(Uint::ZERO);
    }
    let mut produced = 0u32;
    for (s, step) in plan.aux.chunks(4).enumerate() {
        if step.len() < 4 {
            break;
        }
        let (op, sa, sb, k) = (step[0] % NOPS, step[1] as usize, step[2] as usize, step[3]);
        if heavy(op) && B > 1024 {
            continue;
        }
        let a = values[sa % values.len()];
        let b = values[sb % values.len()];
        ctx.event("H-OP", op, k);
        match guard(|| apply_all::<B, L>(op, a, b, k)) {
            Guarded::Ok((name, outs, foreign)) => {
                if !outs.is_empty() || !foreign.is_empty() {
                    ctx.probe(op_probe(op));
                }
                for fv in foreign {
                    produced += 1;
                    if fv.noreject {
                        ctx.violate(
                            "NOREJECT",
                            format!("{}: Uint<{}> constructor documented to reject out-of-range limbs returned 0x{} instead of panicking / None", fv.what, fv.bits, num::hex(&fv.n)),
                        );
                    } else if !fv.canon {
                        ctx.violate(
                            "NONCANON",
                            format!("{}: Uint<{}> with bits set at positions >= BITS (limbs denote 0x{})", fv.what, fv.bits, num::hex(&fv.n)),
                        );
                    }
                }
                for u in outs {
                    ctx.observe(name, &u);
                    produced += 1;
                    if values.len() < 6 {
                        values.push(u);
                    } else {
                        let i = (s + produced as usize) % values.len();
                        values[i] = u;
                    }
                }
            }
            // a panic yields no value: not a statement about canonical values
            Guarded::Panic(_) => ctx.probe("operation-panicked"),
            _ => {}
        }
    }
    ctx.outcome = format!("h{}", produced.min(9));
}
