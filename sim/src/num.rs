//! RefNum: the simulator's own notion of a non-negative integer — a minimal big-endian byte
//! string (zero is the empty string). Independent of ruint: conversion to and from `Uint` goes
//! through `as_limbs()` / `from_limbs()` only.

use ruint::Uint;
use std::cmp::Ordering;

pub type Num = Vec<u8>;

pub fn nbytes(bits: usize) -> usize {
    (bits + 7) / 8
}

pub fn nlimbs(bits: usize) -> usize {
    (bits + 63) / 64
}

pub fn trim_be(bytes: &[u8]) -> Num {
    let z = bytes.iter().position(|&b| b != 0).unwrap_or(bytes.len());
    bytes[z..].to_vec()
}

pub fn from_le(bytes: &[u8]) -> Num {
    let mut v = bytes.to_vec();
    v.reverse();
    trim_be(&v)
}

pub fn from_u128(x: u128) -> Num {
    trim_be(&x.to_be_bytes())
}

pub fn to_u128(n: &Num) -> Option<u128> {
    if n.len() > 16 {
        return None;
    }
    let mut b = [0u8; 16];
    b[16 - n.len()..].copy_from_slice(n);
    Some(u128::from_be_bytes(b))
}

pub fn bit_len(n: &Num) -> usize {
    match n.first() {
        None => 0,
        Some(&b) => (n.len() - 1) * 8 + (8 - b.leading_zeros() as usize),
    }
}

pub fn fits(n: &Num, bits: usize) -> bool {
    bit_len(n) <= bits
}

pub fn cmp(a: &Num, b: &Num) -> Ordering {
    a.len().cmp(&b.len()).then_with(|| a.cmp(b))
}

/// Big-endian, left-padded to exactly `len` bytes (caller guarantees it fits).
pub fn be_padded(n: &Num, len: usize) -> Vec<u8> {
    assert!(n.len() <= len, "be_padded: {} > {}", n.len(), len);
    let mut v = vec![0u8; len - n.len()];
    v.extend_from_slice(n);
    v
}

pub fn le_padded(n: &Num, len: usize) -> Vec<u8> {
    let mut v = be_padded(n, len);
    v.reverse();
    v
}

pub fn hex(bytes: &[u8]) -> String {
    let mut s = String::with_capacity(bytes.len() * 2);
    for b in bytes {
        s.push_str(&format!("{b:02x}"));
    }
    s
}

pub fn unhex(s: &str) -> Result<Vec<u8>, String> {
    let s = s.strip_prefix("0x").unwrap_or(s);
    if s.len() % 2 != 0 {
        return Err(format!("odd hex length: {s}"));
    }
    (0..s.len() / 2)
        .map(|i| u8::from_str_radix(&s[2 * i..2 * i + 2], 16).map_err(|e| e.to_string()))
        .collect()
}

/// Minimal lowercase hex digits of the number ("" for zero).
pub fn hex_digits(n: &Num) -> String {
    let h = hex(n);
    h.trim_start_matches('0').to_string()
}

pub fn to_biguint(n: &Num) -> num_bigint::BigUint {
    num_bigint::BigUint::from_bytes_be(n)
}

pub fn from_biguint(b: &num_bigint::BigUint) -> Num {
    trim_be(&b.to_bytes_be())
}

/// Build a `Uint` from the model number (must fit) without touching any code under test other
/// than `from_limbs` with canonical limbs.
pub fn to_uint<const BITS: usize, const LIMBS: usize>(n: &Num) -> Uint<BITS, LIMBS> {
    assert!(fits(n, BITS), "to_uint: value does not fit {BITS} bits");
    let mut limbs = [0u64; LIMBS];
    for (i, &b) in n.iter().rev().enumerate() {
        limbs[i / 8] |= u64::from(b) << (8 * (i % 8));
    }
    Uint::from_limbs(limbs)
}

/// Read the raw limbs of a `Uint` into a model number. Returns (number denoted by ALL limb bits,
/// canonical?) — canonical means no bit at position >= BITS is set.
pub fn observe<const BITS: usize, const LIMBS: usize>(u: &Uint<BITS, LIMBS>) -> (Num, bool) {
    let limbs = u.as_limbs();
    let mut be = Vec::with_capacity(LIMBS * 8);
    for l in limbs.iter().rev() {
        be.extend_from_slice(&l.to_be_bytes());
    }
    let n = trim_be(&be);
    let canon = fits(&n, BITS);
    (n, canon)
}

pub fn max_value(bits: usize) -> Num {
    if bits == 0 {
        return vec![];
    }
    let nb = nbytes(bits);
    let mut v = vec![0xffu8; nb];
    let top = bits % 8;
    if top != 0 {
        v[0] = (1u16 << top) as u8 - 1;
    }
    v
}

pub fn pow2(k: usize) -> Num {
    let mut v = vec![0u8; k / 8 + 1];
    v[0] = 1 << (k % 8);
    v
}

pub fn add_small(n: &Num, d: i64) -> Num {
    let b = to_biguint(n);
    let r = if d >= 0 {
        b + num_bigint::BigUint::from(d as u64)
    } else {
        let m = num_bigint::BigUint::from((-d) as u64);
        if b < m {
            num_bigint::BigUint::from(0u8)
        } else {
            b - m
        }
    };
    from_biguint(&r)
}

#[cfg(test)]
mod tests {
    use super::*;
    #[test]
    fn basics() {
        assert_eq!(bit_len(&vec![]), 0);
        assert_eq!(bit_len(&vec![1]), 1);
        assert_eq!(bit_len(&vec![0x80]), 8);
        assert_eq!(bit_len(&vec![1, 0]), 9);
        assert_eq!(max_value(7), vec![0x7f]);
        assert_eq!(max_value(9), vec![1, 0xff]);
        assert_eq!(pow2(8), vec![1, 0]);
        assert_eq!(hex_digits(&vec![0x0a, 0x01]), "a01");
        let u: Uint<9, 1> = to_uint(&vec![1, 0xff]);
        assert_eq!(observe(&u), (vec![1, 0xff], true));
        assert_eq!(add_small(&vec![1, 0], -1), vec![0xff]);
    }
}
