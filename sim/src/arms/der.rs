//! DER INTEGER via the `der` crate.
//! flavours: 0 `to_der()` / back-to-back `SliceReader::decode`; 1 `encode(&mut fallible Writer)` /
//! same; 2 `SliceWriter` over exactly `encoded_len()` bytes / `from_der` (single message);
//! 3 `Vec<Uint>` as SEQUENCE OF; 4 via `Any`/`AnyRef`; 5 via `Int`/`IntRef`; 6 via
//! `asn1::Uint`/`UintRef`.

use super::*;
use crate::num::{self, nbytes};
use ::der::asn1::{Any, AnyRef, Int, IntRef, Uint as DerUint, UintRef};
use ::der::{Decode, Encode, EncodeValue, Reader, SliceReader, SliceWriter, Writer};
use ruint::Uint;

pub const FLAVOURS: u32 = 7;
pub const STRICT: bool = true;
pub use super::never_refuse as may_refuse;
pub use super::no as lossy;
pub use super::has_seam as seamless_flavour;
pub const SEAMLESS: bool = false;

pub fn supports(_bits: usize, _flavour: u32) -> bool {
    true
}
pub fn framing(p: &Plan) -> Framing {
    match p.flavour {
        0 | 1 => Framing::Stream,
        3 => Framing::Container,
        _ => Framing::Message,
    }
}
pub use super::no as io_writer;
pub fn writer_fallible(p: &Plan) -> bool {
    p.flavour == 1
}
pub use super::no as io_reader;
pub use super::no as scale_input;

pub fn der_len(len: usize) -> Vec<u8> {
    if len < 0x80 {
        vec![len as u8]
    } else {
        let be = num::trim_be(&(len as u64).to_be_bytes());
        let mut out = vec![0x80 | be.len() as u8];
        out.extend(be);
        out
    }
}

pub fn content(v: &Num) -> Vec<u8> {
    let mut c = v.clone();
    if c.first().map_or(true, |&b| b >= 0x80) {
        c.insert(0, 0);
    }
    c
}

pub fn tlv(tag: u8, content: &[u8]) -> Vec<u8> {
    let mut out = vec![tag];
    out.extend(der_len(content.len()));
    out.extend_from_slice(content);
    out
}

pub fn ref_enc(p: &Plan, vals: &[Num]) -> Vec<u8> {
    let items: Vec<u8> = vals.iter().flat_map(|v| tlv(0x02, &content(v))).collect();
    if p.flavour == 3 {
        tlv(0x30, &items)
    } else {
        items
    }
}

/// Parse a definite, minimal DER length. Ok((len, header_bytes_used_including_tag)).
fn parse_header(b: &[u8]) -> Result<(u8, usize, usize), &'static str> {
    if b.len() < 2 {
        return Err(TRUNCATED);
    }
    let tag = b[0];
    let l0 = b[1];
    if l0 < 0x80 {
        return Ok((tag, l0 as usize, 2));
    }
    let n = (l0 & 0x7f) as usize;
    if n == 0 {
        return Err("indefinite length");
    }
    if n > 4 {
        return Err("length of length > 4");
    }
    if b.len() < 2 + n {
        return Err(TRUNCATED);
    }
    let mut len = 0usize;
    for &x in &b[2..2 + n] {
        len = (len << 8) | x as usize;
    }
    if b[2] == 0 || len < 0x80 {
        return Err("non-minimal length");
    }
    Ok((tag, len, 2 + n))
}

fn dec_int(bits: usize, b: &[u8]) -> Result<(Num, usize), &'static str> {
    let (tag, len, h) = parse_header(b)?;
    if tag != 0x02 {
        return Err("tag is not INTEGER");
    }
    if b.len() - h < len {
        return Err(TRUNCATED);
    }
    let c = &b[h..h + len];
    let body = match c {
        [] => return Err("empty INTEGER"),
        [0, x, ..] if *x < 0x80 => return Err("redundant leading zero"),
        [0, rest @ ..] => rest,
        [x, ..] if *x >= 0x80 => return Err("negative INTEGER"),
        c => c,
    };
    if body.len() > nbytes(bits) {
        return Err("content longer than BYTES");
    }
    let v = num::trim_be(body);
    if !num::fits(&v, bits) {
        return Err("value >= 2^BITS");
    }
    Ok((v, h + len))
}

pub fn ref_dec(p: &Plan, offered: &[u8]) -> RefDec {
    match framing(p) {
        Framing::Container => {
            let (tag, len, h) = match parse_header(offered) {
                Ok(x) => x,
                Err(e) => return RefDec::Invalid(e),
            };
            if tag != 0x30 {
                return RefDec::Invalid("tag is not SEQUENCE");
            }
            if offered.len() - h < len {
                return RefDec::Invalid(TRUNCATED);
            }
            if offered.len() - h > len {
                return RefDec::Unknown; // from_der's trailing-data rule (der crate)
            }
            let body = &offered[h..h + len];
            let mut pos = 0;
            let mut vals = vec![];
            while pos < body.len() {
                match dec_int(p.bits, &body[pos..]) {
                    Ok((v, n)) => {
                        vals.push(v);
                        pos += n;
                    }
                    Err(e) if e == TRUNCATED => return RefDec::Invalid("item overruns SEQUENCE"),
                    Err(e) => return RefDec::Invalid(e),
                }
            }
            RefDec::Value(vals, Some(h + len))
        }
        Framing::Stream => match dec_int(p.bits, offered) {
            Ok((v, n)) => RefDec::Value(vec![v], Some(n)),
            Err(e) => RefDec::Invalid(e),
        },
        Framing::Message => match dec_int(p.bits, offered) {
            // trailing data after a well-formed TLV: the der crate's from_der decides
            Ok((_, n)) if n != offered.len() => RefDec::Unknown,
            Ok((v, n)) => RefDec::Value(vec![v], Some(n)),
            Err(e) => RefDec::Invalid(e),
        },
    }
}

/// M-PAD0: redundant 0x00 in front of the content, length fixed up.
pub fn pad0(p: &Plan, seg: &[u8]) -> Option<Vec<u8>> {
    if p.flavour == 3 {
        return None;
    }
    let (tag, len, h) = parse_header(seg).ok()?;
    if tag != 0x02 || h + len != seg.len() {
        return None;
    }
    let mut c = vec![0u8];
    c.extend_from_slice(&seg[h..]);
    Some(tlv(0x02, &c))
}

struct SimDerWriter<'s, 'a>(&'s mut WriteSeam<'a>);

impl Writer for SimDerWriter<'_, '_> {
    fn write(&mut self, slice: &[u8]) -> ::der::Result<()> {
        self.0
            .write_all_or_fail(slice)
            .map_err(|()| ::der::ErrorKind::Failed.into())
    }
}

pub fn encode<const B: usize, const L: usize>(ws: &mut WriteSeam, p: &Plan, vals: &[Num]) -> EncResult {
    let us: Vec<Uint<B, L>> = vals.iter().map(num::to_uint).collect();
    let mut len_ok = true;
    for (u, v) in us.iter().zip(vals) {
        let c = content(v);
        let vl = u.value_len().map(|l| u32::from(l) as usize);
        if vl != Ok(c.len()) {
            len_ok = false;
            ws.ctx.violate("LEN", format!("DER value_len() = {vl:?} but the canonical content of 0x{} has {} bytes (Uint<{B}>)", num::hex(v), c.len()));
        }
        let el = u.encoded_len().map(|l| u32::from(l) as usize);
        if el != Ok(tlv(2, &c).len()) {
            len_ok = false;
            ws.ctx.violate("LEN", format!("DER encoded_len() = {el:?} but the canonical TLV of 0x{} has {} bytes (Uint<{B}>)", num::hex(v), tlv(2, &c).len()));
        }
        if let Some(x) = num::to_u128(v) {
            if x.to_der().ok() != Some(tlv(2, &c)) {
                ws.ctx.violate("HARNESS", "reference DER encoder disagrees with der's u128");
            }
        }
    }
    let e = |e: ::der::Error| e.to_string();
    match p.flavour {
        0 => {
            let v = us[0].to_der().map_err(e)?;
            ws.append(&v);
        }
        1 => {
            us[0].encode(&mut SimDerWriter(ws)).map_err(e)?;
        }
        2 => {
            if len_ok {
                ws.ctx.fire("D-EXACT");
                let n = u32::from(us[0].encoded_len().map_err(e)?) as usize;
                let mut store = vec![0xAAu8; n];
                let used = {
                    let mut w = SliceWriter::new(&mut store);
                    us[0].encode(&mut w).map_err(e)?;
                    w.finish().map_err(e)?.len()
                };
                if used != n {
                    ws.ctx.violate("LEN", format!("DER encode wrote {used} of the {n} advertised bytes"));
                }
                ws.append(&store[..used]);
            } else {
                let v = us[0].to_der().map_err(e)?;
                ws.append(&v);
            }
        }
        3 => {
            let v = us.to_der().map_err(e)?;
            ws.append(&v);
        }
        4 => {
            let a = Any::from(&us[0]);
            let a2 = Any::from(us[0]);
            let v = a.to_der().map_err(e)?;
            if a2.to_der().map_err(e)? != v {
                ws.ctx.violate("ENC!=REF", "Any::from(&Uint) and Any::from(Uint) differ");
            }
            ws.append(&v);
        }
        5 => {
            let v = Int::from(&us[0]).to_der().map_err(e)?;
            if Int::from(us[0]).to_der().map_err(e)? != v {
                ws.ctx.violate("ENC!=REF", "Int::from(&Uint) and Int::from(Uint) differ");
            }
            ws.append(&v);
        }
        _ => {
            let v = DerUint::from(&us[0]).to_der().map_err(e)?;
            if DerUint::from(us[0]).to_der().map_err(e)? != v {
                ws.ctx.violate("ENC!=REF", "der Uint::from(&Uint) and from(Uint) differ");
            }
            ws.append(&v);
        }
    }
    Ok(())
}

pub fn decode<const B: usize, const L: usize>(rs: &mut ReadSeam, p: &Plan) -> DecResult {
    rs.note_cut_for_slice();
    let s = rs.rest();
    let e = |e: ::der::Error| e.to_string();
    match p.flavour {
        0 | 1 => {
            let mut r = SliceReader::new(s).map_err(e)?;
            let u: Uint<B, L> = r.decode().map_err(e)?;
            let used = u32::from(r.position()) as usize;
            rs.advance(used);
            let n = rs.ctx.observe("DER decode", &u);
            Ok((vec![n], Some(used)))
        }
        2 => {
            let u = Uint::<B, L>::from_der(s).map_err(e)?;
            rs.advance(s.len());
            let n = rs.ctx.observe("DER from_der", &u);
            Ok((vec![n], Some(s.len())))
        }
        3 => {
            let us = Vec::<Uint<B, L>>::from_der(s).map_err(e)?;
            rs.advance(s.len());
            let ns = us.iter().map(|u| rs.ctx.observe("DER SEQUENCE item", u)).collect();
            Ok((ns, Some(s.len())))
        }
        f => {
            // owned and borrowed conversions must agree
            let (a, b): (::der::Result<Uint<B, L>>, ::der::Result<Uint<B, L>>) = match f {
                4 => (
                    Any::from_der(s).and_then(|x| Uint::try_from(&x)),
                    AnyRef::from_der(s).and_then(Uint::try_from),
                ),
                5 => (
                    Int::from_der(s).and_then(|x| Uint::try_from(&x)),
                    IntRef::from_der(s).and_then(Uint::try_from),
                ),
                _ => (
                    DerUint::from_der(s).and_then(|x| Uint::try_from(&x)),
                    UintRef::from_der(s).and_then(Uint::try_from),
                ),
            };
            // by-value forwarders must agree with the by-reference impls
            let c: ::der::Result<Uint<B, L>> = match f {
                4 => Any::from_der(s).and_then(Uint::try_from),
                5 => Int::from_der(s).and_then(Uint::try_from),
                _ => DerUint::from_der(s).and_then(Uint::try_from),
            };
            if a.is_ok() != c.is_ok() || (a.is_ok() && a.as_ref().ok() != c.as_ref().ok()) {
                rs.ctx.violate("LIE", "DER by-value and by-reference conversions disagree");
            }
            match (&a, &b) {
                (Ok(x), Ok(y)) if x == y => {}
                (Err(_), Err(_)) => {}
                _ => rs.ctx.violate("LIE", format!("DER owned and borrowed conversions disagree: {:?} vs {:?}", a.as_ref().map(|u| u.to_string()), b.as_ref().map(|u| u.to_string()))),
            }
            let u = a.map_err(e)?;
            rs.advance(s.len());
            let n = rs.ctx.observe("DER conversion", &u);
            Ok((vec![n], Some(s.len())))
        }
    }
}
