//! SCALE `Input` stub over a `ReadSeam`. (`Output` needs no stub of its own: with `std`,
//! parity-scale-codec implements `Output` for every `io::Write` via `write_all`, so the
//! `WriteSeam` is the output and W-SHORT / W-EINTR apply; `Output` has no error path, so W-ERR
//! is never injected for SCALE.)

use super::io::ReadSeam;
use parity_scale_codec::{Error, Input};

pub struct SimInput<'s, 'a> {
    pub rs: &'s mut ReadSeam<'a>,
}

impl Input for SimInput<'_, '_> {
    fn remaining_len(&mut self) -> Result<Option<usize>, Error> {
        let real = self.rs.src.len().saturating_sub(self.rs.pos);
        self.rs.ctx.seam("I-REMAINING", real as u64, u64::from(self.rs.plan.remaining_len));
        Ok(match self.rs.plan.remaining_len {
            1 => {
                self.rs.ctx.fire("L-NONE");
                None
            }
            2 => {
                self.rs.ctx.fire("L-BIG");
                Some(real + 4096)
            }
            3 => {
                self.rs.ctx.fire("L-SMALL");
                Some(real / 2)
            }
            _ => Some(real),
        })
    }

    fn read(&mut self, into: &mut [u8]) -> Result<(), Error> {
        self.rs.read_exact_or_err(into).map_err(Error::from)
    }

    fn on_before_alloc_mem(&mut self, size: usize) -> Result<(), Error> {
        self.rs.ctx.seam("I-ALLOC", size as u64, 0);
        if let Some(b) = self.rs.plan.alloc_budget {
            if size > b {
                self.rs.ctx.fire("A-BUDGET");
                return Err("sim: allocation budget exceeded".into());
            }
        }
        Ok(())
    }
}
