//! Batch driver: stages per property, worker threads, accumulation, minimisation, replay files,
//! known findings, evidence.

use crate::ctx::Violation;
use crate::engine::{run_plan, RunReport};
use crate::gen::{self, Restrict};
use crate::plan::{Config, Expect, Plan};
use crate::prng::{run_seed, splitmix64};
use crate::shrink::{self, Key};
use crate::sweep;
use serde_json::json;
use std::collections::{BTreeMap, BTreeSet};
use std::time::Instant;

pub const DEFAULT_SEED: u64 = 20_260_926;

#[derive(Clone)]
pub struct RunCfg {
    pub property: String,
    pub tier: String,
    pub seed: u64,
    pub scale: f64,
    pub jobs: usize,
    pub evidence: Option<String>,
    pub known: Option<String>,
    pub replays: String,
    pub codec: Option<String>,
    pub bits: Option<usize>,
    pub profile: String,
    /// in-process watchdog reports a stuck run here (then exits with code 3)
    pub hang_file: Option<String>,
    /// stop before (stage arm id, run index): used to write evidence after a fatal run
    pub stop: Option<(u64, u64)>,
    /// run only the stage with this arm id (second feature configuration of C04)
    pub only_stage: Option<u64>,
    /// tag for replay file names and signatures of secondary builds ("", "r08", "plain")
    pub build_label: String,
    /// (stage arm id, run index) pairs not to execute: fatal runs outside this property's scope
    pub skip: Vec<(u64, u64)>,
    /// history operation kinds excluded after one of them took the process down (C04 only)
    pub skip_ops: Vec<u64>,
    /// print "RUN <stage arm id> <index> <point>" before every run (Miri slice: names the run in which
    /// the interpreter stopped)
    pub announce: bool,
}

#[derive(Clone, Copy, Debug, PartialEq, Eq)]
pub enum StageKind {
    Pipeline(&'static [Config]),
    Text,
    Entropy,
    History,
    Sweep,
    WriteErr,
    /// exhaustive: every value of every small width through every arm/flavour (index = point)
    SmallValues,
    /// exhaustive: every input of at most N bytes to every decoder at the small widths
    ShortInputs(usize),
}

#[derive(Clone, Copy, Debug)]
pub struct Stage {
    pub name: &'static str,
    pub arm_id: u64,
    pub kind: StageKind,
    pub runs: u64,
}

const C16_CFG: &[Config] = &[Config::Control, Config::Benign, Config::Benign];
const C17_CFG: &[Config] = &[Config::Destructive];
const ALL_CFG: &[Config] = &[Config::Control, Config::Benign, Config::Destructive, Config::Destructive];

pub fn stages(property: &str, tier: &str, scale: f64) -> Vec<Stage> {
    let t = if tier == "thorough" { 100.0 } else { 1.0 };
    let n = |base: u64| ((base as f64) * t * scale).max(1.0) as u64;
    match property {
        "C16" => vec![
            Stage { name: "pipeline control+benign", arm_id: 1, kind: StageKind::Pipeline(C16_CFG), runs: n(1_500_000) },
            // encoding through a writer that fails at byte k: the error must surface and the bytes
            // that reached the medium must be a prefix of the reference encoding
            Stage { name: "pipeline write-error", arm_id: 8, kind: StageKind::WriteErr, runs: n(200_000) },
            // seed-independent supplement: the complete value space of the small widths
            if scale >= 1.0 {
                Stage { name: "exhaustive: all values of the small widths", arm_id: 9, kind: StageKind::SmallValues, runs: gen::small_values_len() }
            } else {
                // scaled-down batches (Miri slice, self-tests) only take a prefix of the space
                Stage { name: "prefix of: all values of the small widths", arm_id: 9, kind: StageKind::SmallValues, runs: ((gen::small_values_len() as f64) * scale) as u64 }
            },
        ],
        "C17" => vec![
            Stage { name: "pipeline destructive", arm_id: 2, kind: StageKind::Pipeline(C17_CFG), runs: n(1_500_000) },
            Stage { name: "text", arm_id: 3, kind: StageKind::Text, runs: n(600_000) },
            Stage { name: "single-fault sweep", arm_id: 4, kind: StageKind::Sweep, runs: n(3_000) },
            // seed-independent supplement: every input of at most 1 (quick) / 2 (thorough) bytes
            if scale < 1.0 {
                Stage { name: "prefix of: all inputs of <= 1 byte, the small widths", arm_id: 10, kind: StageKind::ShortInputs(1), runs: ((gen::short_inputs_len(1) as f64) * scale) as u64 }
            } else if tier == "thorough" {
                Stage { name: "exhaustive: all inputs of <= 2 bytes, the small widths", arm_id: 10, kind: StageKind::ShortInputs(2), runs: gen::short_inputs_len(2) }
            } else {
                Stage { name: "exhaustive: all inputs of <= 1 byte, the small widths", arm_id: 10, kind: StageKind::ShortInputs(1), runs: gen::short_inputs_len(1) }
            },
        ],
        "C04" => vec![
            Stage { name: "entropy", arm_id: 5, kind: StageKind::Entropy, runs: n(600_000) },
            Stage { name: "pipeline all configurations", arm_id: 6, kind: StageKind::Pipeline(ALL_CFG), runs: n(500_000) },
            Stage { name: "text", arm_id: 7, kind: StageKind::Text, runs: n(200_000) },
            // the "histories" part of the quantifier: decoded values, then sequences of public operations,
            // canonical-limb and ordering invariants checked after every step (no fault dimension)
            Stage { name: "history (operation sequences)", arm_id: 11, kind: StageKind::History, runs: n(1_000_000) },
        ],
        _ => vec![],
    }
}

/// Which violation classes count for which property's batch.
pub fn relevant(property: &str, class: &str) -> bool {
    match property {
        "C16" => matches!(class, "ENC!=REF" | "LEN" | "ROUNDTRIP" | "MASKED-FAULT" | "ENC-PANIC" | "ENC-STEPS" | "PANIC" | "STEPS" | "ENC-FAIL" | "PRIM!=" | "NONCANON" | "LOST-WRITE" | "PREFIX"),
        "C17" => matches!(class, "PANIC" | "STEPS" | "NONCANON" | "PREFIX" | "TORN-OK" | "LIE" | "NONMINIMAL"),
        "C04" => matches!(class, "NONCANON" | "ORDER" | "GEN-PANIC" | "NOREJECT"),
        _ => false,
    }
}

/// at most this many signatures are remembered per worker and per set (16 workers x 2 sets x 4 M x ~40 B < 6 GiB)
pub const SIG_CAP_PER_WORKER: usize = 4_000_000;
pub const SIG_CAP_TOTAL: usize = 48_000_000;

#[derive(Default)]
pub struct Acc {
    pub evals: u64,
    pub runs: u64,
    pub seam_events: u64,
    pub fired: BTreeMap<&'static str, u64>,
    pub probes: BTreeMap<&'static str, u64>,
    pub sigs: BTreeSet<u64>,
    pub sigs_nontrivial: BTreeSet<u64>,
    pub per_codec: BTreeMap<String, u64>,
    pub per_config: BTreeMap<&'static str, u64>,
    pub outcome_letters: BTreeMap<char, u64>,
    pub found: BTreeMap<Key, (u64, Plan, Violation)>,
    pub violating_runs: u64,
    pub digest_sum: u64,
    pub samples: Vec<(u64, Plan, String)>,
    pub sweep_records: u64,
    pub sweep_exhaustive: u64,
    pub per_run_digests: Vec<(u64, u64)>,
    pub sigs_saturated: bool,
}

impl Acc {
    fn add(&mut self, stage: &Stage, index: u64, plan: &Plan, rep: RunReport, property: &str, keep_digests: bool) {
        self.evals += 1;
        self.seam_events += rep.seam_events;
        for (k, v) in &rep.fired {
            *self.fired.entry(k).or_insert(0) += u64::from(*v);
        }
        for (k, v) in &rep.probes {
            *self.probes.entry(k).or_insert(0) += u64::from(*v);
        }
        // memory guard: beyond the cap the count becomes a lower bound (flagged in the evidence)
        if self.sigs.len() < SIG_CAP_PER_WORKER {
            self.sigs.insert(rep.signature);
        } else {
            self.sigs_saturated = true;
        }
        if rep.nontrivial {
            if self.sigs_nontrivial.len() < SIG_CAP_PER_WORKER {
                self.sigs_nontrivial.insert(rep.signature);
            } else {
                self.sigs_saturated = true;
            }
        }
        *self.per_codec.entry(format!("{}/{}", plan.arm, plan.codec)).or_insert(0) += 1;
        *self.per_config.entry(match plan.config {
            Config::Control => "control",
            Config::Benign => "benign",
            Config::Destructive => "destructive",
        }).or_insert(0) += 1;
        if plan.arm == "pipeline" {
            for c in rep.outcome.chars().take(8).filter(|c| "kKeEps-".contains(*c)) {
                *self.outcome_letters.entry(c).or_insert(0) += 1;
            }
        }
        let mut x = rep.digest ^ index.wrapping_mul(0x9E37_79B9_7F4A_7C15) ^ stage.arm_id;
        self.digest_sum = self.digest_sum.wrapping_add(splitmix64(&mut x));
        if keep_digests {
            self.per_run_digests.push((index, rep.digest));
        }
        let mut any = false;
        for v in rep.violations {
            if v.class != "HARNESS" && !relevant(property, v.class) {
                continue;
            }
            any = true;
            let key = shrink::key_of(plan, &v);
            match self.found.get(&key) {
                Some((i, _, _)) if *i <= index => {}
                _ => {
                    self.found.insert(key, (index, plan.clone(), v));
                }
            }
        }
        if any {
            self.violating_runs += 1;
        }
        if self.samples.len() < 3 && rep.nontrivial && index % 7 == 3 {
            self.samples.push((index, plan.clone(), rep.outcome));
        }
    }

    fn merge(&mut self, o: Acc) {
        self.evals += o.evals;
        self.runs += o.runs;
        self.seam_events += o.seam_events;
        for (k, v) in o.fired {
            *self.fired.entry(k).or_insert(0) += v;
        }
        for (k, v) in o.probes {
            *self.probes.entry(k).or_insert(0) += v;
        }
        self.sigs_saturated |= o.sigs_saturated;
        for s in o.sigs {
            if self.sigs.len() >= SIG_CAP_TOTAL {
                self.sigs_saturated = true;
                break;
            }
            self.sigs.insert(s);
        }
        for s in o.sigs_nontrivial {
            if self.sigs_nontrivial.len() >= SIG_CAP_TOTAL {
                self.sigs_saturated = true;
                break;
            }
            self.sigs_nontrivial.insert(s);
        }
        for (k, v) in o.per_codec {
            *self.per_codec.entry(k).or_insert(0) += v;
        }
        for (k, v) in o.per_config {
            *self.per_config.entry(k).or_insert(0) += v;
        }
        for (k, v) in o.outcome_letters {
            *self.outcome_letters.entry(k).or_insert(0) += v;
        }
        for (k, (i, p, v)) in o.found {
            match self.found.get(&k) {
                Some((j, _, _)) if *j <= i => {}
                _ => {
                    self.found.insert(k, (i, p, v));
                }
            }
        }
        self.violating_runs += o.violating_runs;
        self.digest_sum = self.digest_sum.wrapping_add(o.digest_sum);
        self.samples.extend(o.samples);
        self.samples.sort_by_key(|s| s.0);
        self.samples.truncate(4);
        self.sweep_records += o.sweep_records;
        self.sweep_exhaustive += o.sweep_exhaustive;
        self.per_run_digests.extend(o.per_run_digests);
    }
}

pub fn plan_for(stage: &Stage, seed: u64, restrict: &Restrict) -> Plan {
    let mut p = plan_for_inner(stage, seed, restrict);
    // containment self-test: SIMCTL_SELFTEST=abort:<run seed> | hang:<run seed>
    if let Ok(s) = std::env::var("SIMCTL_SELFTEST") {
        if let Some((kind, at)) = s.split_once(':') {
            if at.parse::<u64>().ok() == Some(seed) {
                p.notes.push(if kind == "abort" { "SELFTEST-ABORT".into() } else { "SELFTEST-HANG".into() });
            }
        }
    }
    p
}

fn plan_for_inner(stage: &Stage, seed: u64, restrict: &Restrict) -> Plan {
    match stage.kind {
        StageKind::Pipeline(cfgs) => gen::gen_pipeline(seed, cfgs, restrict),
        StageKind::WriteErr => gen::gen_write_err(seed, restrict),
        StageKind::SmallValues | StageKind::ShortInputs(_) => unreachable!("indexed, not seeded"),
        StageKind::Text => gen::gen_text(seed, restrict),
        StageKind::Entropy => gen::gen_entropy(seed, restrict),
        StageKind::History => {
            let mut p = gen::gen_history(seed, restrict);
            crate::history::filter_plan(&mut p);
            p
        }
        StageKind::Sweep => unreachable!(),
    }
}

fn restrict_applies(stage: &Stage, cfg_codec: Option<&str>) -> bool {
    // a --codec restriction names either a pipeline arm or a text/entropy codec
    match (stage.kind, cfg_codec) {
        (_, None) => true,
        (StageKind::Pipeline(_) | StageKind::Sweep | StageKind::WriteErr, Some(c)) => crate::arms::arm_by_name(c).is_some(),
        (StageKind::SmallValues | StageKind::ShortInputs(_), Some(_)) => false,
        (StageKind::Text, Some(c)) => matches!(c, "from_str" | "bits_from_str" | "from_str_radix" | "from_base_be" | "from_base_le"),
        (StageKind::Entropy, Some(c)) => crate::entropy::CODECS.contains(&c),
        (StageKind::History, Some(c)) => c == "ops",
    }
}

pub static ANNOUNCE: std::sync::atomic::AtomicBool = std::sync::atomic::AtomicBool::new(false);
pub static HEART_STAGE: std::sync::atomic::AtomicU64 = std::sync::atomic::AtomicU64::new(0);
pub static HEART_INDEX: [std::sync::atomic::AtomicU64; 64] = [const { std::sync::atomic::AtomicU64::new(0) }; 64];
pub static HEART_POINT: [std::sync::atomic::AtomicU64; 64] = [const { std::sync::atomic::AtomicU64::new(0) }; 64];

/// Watchdog thread: a worker that sits on the same (index, point) for HANG_SECS is hung.
pub fn start_watchdog(hang_file: String) {
    use std::sync::atomic::Ordering::Relaxed;
    std::thread::spawn(move || {
        let mut last = [(0u64, 0u64); 64];
        let mut stuck = [0u64; 64];
        loop {
            std::thread::sleep(std::time::Duration::from_secs(1));
            for w in 0..64 {
                let cur = (HEART_INDEX[w].load(Relaxed), HEART_POINT[w].load(Relaxed));
                if cur.0 != 0 && cur == last[w] {
                    stuck[w] += 1;
                } else {
                    stuck[w] = 0;
                    last[w] = cur;
                }
                if stuck[w] >= crate::contain::HANG_SECS {
                    let _ = std::fs::write(&hang_file, format!("{} {} {}\n", HEART_STAGE.load(Relaxed), cur.0 - 1, cur.1));
                    println!("simctl: watchdog: stage arm-id {} run-index {} point {} has not finished for {} s", HEART_STAGE.load(Relaxed), cur.0 - 1, cur.1, stuck[w]);
                    std::process::exit(3);
                }
            }
        }
    });
}

pub fn run_stage(stage: &Stage, base_seed: u64, jobs: usize, property: &str, codec: Option<&str>, bits: Option<usize>, keep_digests: bool) -> Acc {
    run_stage_range(stage, base_seed, jobs, property, codec, bits, keep_digests, 0, stage.runs, None, &[])
}

#[allow(clippy::too_many_arguments)]
pub fn run_stage_range(
    stage: &Stage,
    base_seed: u64,
    jobs: usize,
    property: &str,
    codec: Option<&str>,
    bits: Option<usize>,
    keep_digests: bool,
    from: u64,
    to: u64,
    points: Option<(usize, usize)>,
    skip: &[(u64, u64)],
) -> Acc {
    use std::sync::atomic::Ordering::Relaxed;
    let mut total = Acc::default();
    if !restrict_applies(stage, codec) {
        return total;
    }
    let jobs = jobs.clamp(1, 64);
    HEART_STAGE.store(stage.arm_id, Relaxed);
    let accs: Vec<Acc> = std::thread::scope(|s| {
        let handles: Vec<_> = (0..jobs)
            .map(|w| {
                s.spawn(move || {
                    let restrict = Restrict { codec, bits };
                    let mut acc = Acc::default();
                    let mut i = from + w as u64;
                    while i < to {
                        if skip.contains(&(stage.arm_id, i)) {
                            i += jobs as u64;
                            continue;
                        }
                        let seed = run_seed(base_seed, stage.arm_id, i);
                        acc.runs += 1;
                        HEART_POINT[w].store(0, Relaxed);
                        HEART_INDEX[w].store(i + 1, Relaxed);
                        if stage.kind == StageKind::Sweep {
                            let set = sweep::sweep_plans(seed, &restrict);
                            acc.sweep_records += 1;
                            if set.exhaustive_bits {
                                acc.sweep_exhaustive += 1;
                            }
                            for (k, p) in set.plans.iter().enumerate() {
                                if let Some((a, b)) = points {
                                    if k < a || k >= b {
                                        continue;
                                    }
                                }
                                HEART_POINT[w].store(k as u64, Relaxed);
                                if ANNOUNCE.load(Relaxed) {
                                    eprintln!("RUN {} {} {}", stage.arm_id, i, k);
                                }
                                let rep = run_plan(p, false);
                                acc.add(stage, i.wrapping_mul(1 << 20).wrapping_add(k as u64), p, rep, property, false);
                            }
                        } else if let StageKind::SmallValues | StageKind::ShortInputs(_) = stage.kind {
                            let plan = match stage.kind {
                                StageKind::SmallValues => gen::small_value_plan(i),
                                StageKind::ShortInputs(n) => gen::short_input_plan(i, n),
                                _ => None,
                            };
                            if let Some(plan) = plan {
                                let rep = run_plan(&plan, false);
                                acc.add(stage, i, &plan, rep, property, keep_digests);
                            }
                        } else {
                            let plan = plan_for(stage, seed, &restrict);
                            if ANNOUNCE.load(Relaxed) {
                                eprintln!("RUN {} {} 0", stage.arm_id, i);
                            }
                            let rep = run_plan(&plan, false);
                            acc.add(stage, i, &plan, rep, property, keep_digests);
                        }
                        i += jobs as u64;
                    }
                    HEART_INDEX[w].store(0, Relaxed);
                    acc
                })
            })
            .collect();
        handles.into_iter().map(|h| h.join().expect("worker panicked outside a guard (harness bug)")).collect()
    });
    for a in accs {
        total.merge(a);
    }
    total
}

#[derive(serde::Deserialize, Clone, Debug)]
pub struct Finding {
    pub id: String,
    pub status: String,
    pub property: String,
    #[serde(default)]
    pub class: Option<String>,
    #[serde(default)]
    pub arm: Option<String>,
    #[serde(default)]
    pub codec: Option<String>,
    #[serde(default)]
    pub width_classes: Option<Vec<u8>>,
    #[serde(default)]
    pub skeleton_contains: Option<String>,
    #[serde(default)]
    pub what: String,
    #[serde(default)]
    pub commit: Option<String>,
}

#[derive(serde::Deserialize, Default)]
struct FindingsFile {
    #[serde(default)]
    findings: Vec<Finding>,
}

fn load_findings(path: Option<&str>) -> Result<Vec<Finding>, String> {
    let Some(path) = path else { return Ok(vec![]) };
    let Ok(text) = std::fs::read_to_string(path) else { return Ok(vec![]) };
    let f: FindingsFile = serde_json::from_str(&text).map_err(|e| format!("{path}: {e}"))?;
    Ok(f.findings)
}

fn matches_finding(f: &Finding, property: &str, key: &Key) -> bool {
    f.status == "open"
        && f.property == property
        && f.class.as_ref().map_or(true, |c| *c == key.class)
        && f.arm.as_ref().map_or(true, |a| *a == key.arm)
        && f.codec.as_ref().map_or(true, |c| *c == key.codec)
        && f.width_classes.as_ref().map_or(true, |w| w.contains(&key.width_class))
        && f.skeleton_contains.as_ref().map_or(true, |s| key.skeleton.contains(s.as_str()))
}

pub fn run(cfg: &RunCfg) -> u8 {
    let t0 = Instant::now();
    let mut st = stages(&cfg.property, &cfg.tier, cfg.scale);
    if let Some(only) = cfg.only_stage {
        st.retain(|s| s.arm_id == only);
    }
    if st.is_empty() {
        eprintln!("no stages for property {}", cfg.property);
        return 2;
    }
    let findings = match load_findings(cfg.known.as_deref()) {
        Ok(f) => f,
        Err(e) => {
            eprintln!("HARNESS: cannot read known findings: {e}");
            return 2;
        }
    };
    println!("simctl: property={} tier={} VERIF_SEED={} jobs={} profile={}", cfg.property, cfg.tier, cfg.seed, cfg.jobs, cfg.profile);
    let mut total = Acc::default();
    let mut stage_info = vec![];
    if let Some(h) = &cfg.hang_file {
        start_watchdog(h.clone());
    }
    ANNOUNCE.store(cfg.announce, std::sync::atomic::Ordering::Relaxed);
    for s in &st {
        let ts = Instant::now();
        let to = match cfg.stop {
            Some((arm, idx)) if arm == s.arm_id => idx,
            Some((arm, _)) if st.iter().position(|x| x.arm_id == arm) < st.iter().position(|x| x.arm_id == s.arm_id) => 0,
            _ => s.runs,
        };
        let acc = run_stage_range(s, cfg.seed, cfg.jobs, &cfg.property, cfg.codec.as_deref(), cfg.bits, false, 0, to, None, &cfg.skip);
        let dt = ts.elapsed().as_secs_f64();
        println!("  stage {:<32} runs={:<9} evaluations={:<10} violating={:<7} {:.1}s", s.name, acc.runs, acc.evals, acc.violating_runs, dt);
        stage_info.push(json!({"stage": s.name, "runs": acc.runs, "evaluations": acc.evals, "seed_index_range": [0, s.runs], "wall_s": dt, "batch_digest": format!("{:016x}", acc.digest_sum)}));
        total.merge(acc);
    }

    // ------------------------------------------------------------ triage
    let mut harness_errors = vec![];
    let mut reported = vec![];
    let mut known_hit: BTreeMap<String, (Finding, String)> = BTreeMap::new();
    let _ = std::fs::create_dir_all(&cfg.replays);
    let found = std::mem::take(&mut total.found);
    // minimise in parallel (each key independently), then report in key order
    let items: Vec<(Key, (u64, Plan, Violation))> = found.into_iter().collect();
    let shrunk: Vec<(Key, Plan, Option<Violation>, u64)> = std::thread::scope(|s| {
        let chunks: Vec<_> = items.chunks(items.len().div_ceil(cfg.jobs.max(1)).max(1)).collect();
        let hs: Vec<_> = chunks
            .into_iter()
            .map(|c| {
                s.spawn(move || {
                    c.iter()
                        .map(|(key, (idx, plan, _v))| {
                            if key.class == "HARNESS" {
                                return (key.clone(), plan.clone(), None, *idx);
                            }
                            let min = shrink::shrink(plan, key, 400);
                            let rep = run_plan(&min, false);
                            let v = rep.violations.into_iter().find(|v| v.class == key.class);
                            (key.clone(), min, v, *idx)
                        })
                        .collect::<Vec<_>>()
                })
            })
            .collect();
        hs.into_iter().flat_map(|h| h.join().unwrap()).collect()
    });
    // after minimisation several keys may have collapsed into one
    let mut by_final: BTreeMap<Key, (Plan, Violation, u64)> = BTreeMap::new();
    for (key, plan, v, idx) in shrunk {
        if key.class == "HARNESS" {
            harness_errors.push(format!("{} {} bits={}: {}", plan.arm, plan.codec, plan.bits, key.skeleton));
            continue;
        }
        let Some(v) = v else {
            harness_errors.push(format!("minimised plan lost its violation: {key:?}"));
            continue;
        };
        let fk = shrink::key_of(&plan, &v);
        by_final.entry(fk).or_insert((plan, v, idx));
    }
    for (key, (mut plan, v, idx)) in by_final {
        plan.property = cfg.property.clone();
        plan.expect = Some(Expect { class: key.class.clone(), detail: key.skeleton.clone() });
        let mut h = crate::prng::Digest::default();
        h.str(&serde_json::to_string(&plan).unwrap());
        let build = if cfg.build_label.is_empty() { String::new() } else { format!("{}-", cfg.build_label) };
        let path = format!("{}/{}-{}{}-{:08x}.json", cfg.replays, cfg.property, build, key.class.replace("!=", "NE"), h.finish() as u32);
        if let Err(e) = std::fs::write(&path, serde_json::to_string_pretty(&plan).unwrap()) {
            harness_errors.push(format!("cannot write {path}: {e}"));
            continue;
        }
        // replay in a fresh process: must reproduce exactly
        // (under the Miri interpreter processes cannot be spawned: re-execute in this process instead)
        let ok = if cfg!(miri) {
            run_plan(&plan, false).violations.iter().any(|x| x.class == key.class)
        } else {
            std::env::current_exe()
            .ok()
            .and_then(|exe| std::process::Command::new(exe).arg("replay").arg(&path).arg("--inproc").arg("--quiet").output().ok())
            .map_or(false, |o| o.status.code() == Some(1))
        };
        if !ok {
            harness_errors.push(format!("replay of {path} in a fresh process did not reproduce the violation"));
            continue;
        }
        if let Some(f) = findings.iter().find(|f| matches_finding(f, &cfg.property, &key)) {
            known_hit.entry(f.id.clone()).or_insert((f.clone(), path.clone()));
            continue;
        }
        reported.push((key, plan, v, path, idx));
    }

    for (id, (f, path)) in &known_hit {
        println!("KNOWN-FINDING: property={} {} {} (replay={})", cfg.property, id, f.what, path);
    }
    for (key, plan, v, path, idx) in &reported {
        println!("VIOLATION property={} replay={}", cfg.property, path);
        println!("    class={} arm={} codec={} bits={} run-index={} seed={}", key.class, plan.arm, plan.codec, plan.bits, idx, plan.seed);
        println!("    {}", v.detail);
    }
    for h in &harness_errors {
        println!("HARNESS-ERROR: {h}");
    }

    // ------------------------------------------------------------ evidence
    let wall = t0.elapsed().as_secs_f64();
    if let Some(path) = &cfg.evidence {
        let ev = evidence(cfg, &total, &stage_info, &reported, &known_hit, wall);
        if let Some(dir) = std::path::Path::new(path).parent() {
            let _ = std::fs::create_dir_all(dir);
        }
        if let Err(e) = std::fs::write(path, serde_json::to_string_pretty(&ev).unwrap()) {
            println!("HARNESS-ERROR: cannot write evidence {path}: {e}");
            return 2;
        }
    }
    println!(
        "simctl: {} evaluations, {} distinct signatures ({} non-trivial), {} seam events, {} violations, {} known findings, {:.1}s",
        total.evals,
        total.sigs.len().max(total.sigs_nontrivial.len()),
        total.sigs_nontrivial.len(),
        total.seam_events,
        reported.len(),
        known_hit.len(),
        wall
    );
    if !harness_errors.is_empty() {
        2
    } else if !reported.is_empty() {
        1
    } else {
        0
    }
}

fn evidence(
    cfg: &RunCfg,
    total: &Acc,
    stage_info: &[serde_json::Value],
    reported: &[(Key, Plan, Violation, String, u64)],
    known: &BTreeMap<String, (Finding, String)>,
    wall: f64,
) -> serde_json::Value {
    let all_faults: &[&str] = match cfg.property.as_str() {
        "C16" => &["W-SHORT", "W-EINTR", "R-SHORT", "R-EINTR", "D-PREFILL", "D-EXACT", "S-FORM", "L-NONE", "L-BIG", "W-ERR", "S-ERR"],
        "C17" => &[
            "W-SHORT", "W-EINTR", "R-SHORT", "R-EINTR", "D-PREFILL", "S-FORM", "L-NONE", "L-BIG", "W-ERR", "M-TRUNC", "M-FLIP", "M-SUB", "M-ZERO",
            "M-DUP", "M-TAIL", "M-FIELD", "M-GARBAGE", "M-FORGE", "M-PAD0", "R-ERR", "R-EOF", "A-BUDGET", "L-SMALL", "S-FLAG", "S-ALIEN", "S-ERR", "P-SKEW", "N-NEG", "T-TRUNC", "T-SUB",
            "T-INS", "T-MULTIBYTE", "T-WIDECHAR", "T-UNDERSCORE", "T-CASE", "T-PREFIX", "T-RADIX", "T-DIGIT", "T-OVER", "G-DROP", "G-CORRUPT", "G-APPEND", "G-BASE",
        ],
        _ => &["E-STREAM", "E-FAIL", "E-DRY", "E-SEED", "E-WALK", "M-FLIP", "M-TRUNC", "R-EINTR"],
    };
    let zero: Vec<&str> = all_faults.iter().copied().filter(|k| total.fired.get(k).copied().unwrap_or(0) == 0).collect();
    let samples: Vec<serde_json::Value> = total
        .samples
        .iter()
        .map(|(i, p, o)| json!({"run_index": i, "outcome": o, "plan": p}))
        .collect();
    let level = if cfg.property == "C17" { "fault_enumeration" } else { "exploration" };
    // secondary builds are different systems: their signatures must not collide with the main run's
    let label_salt = cfg.build_label.bytes().fold(0u64, |a, b| a.wrapping_mul(131).wrapping_add(u64::from(b)));
    let distinct_nontrivial = total.sigs_nontrivial.iter().map(|s| s ^ label_salt).collect::<BTreeSet<u64>>().len();
    let _ = label_salt;
    json!({
        "property_id": cfg.property,
        "tier": if cfg.tier == "thorough" { "thorough" } else { "quick" },
        "seed": cfg.seed,
        "level": level,
        "coverage": {
            "evaluations": total.evals,
            "distinct_nontrivial": distinct_nontrivial,
            "rule": "one evaluation = one simulated run (one codec arm, one width, 1-4 records through producer -> medium -> consumer, or one parser / generator call) or one point of the single-fault sweep; every choice derives from VERIF_SEED via splitmix64(seed, stage, index) -> xoshiro256**. distinct = number of different coverage signatures (arm, codec, flavour, width class, value class, configuration, set of fault kinds that actually fired, damage locus, codec knobs, per-operation outcome letters); non-trivial = at least one fault fired or a non-zero value / non-empty text was involved",
            "samples": samples,
            "distinct_signatures_total": total.sigs.len().max(total.sigs_nontrivial.len()),
            "distinct_counts_are_lower_bounds": total.sigs_saturated,
            "simulated_runs": total.runs,
            "runs_per_hour": if wall > 0.0 { (total.evals as f64 / wall * 3600.0) as u64 } else { 0 },
            "seam_events": total.seam_events,
            "simulated_time": "n/a - no clock, timer or deadline exists in the system under test; logical time = global seam-event sequence number",
            "stages": stage_info,
            "faults_fired": total.fired,
            "fault_kinds_never_fired": zero,
            "probes": total.probes,
            "runs_per_codec": total.per_codec,
            "runs_per_configuration": total.per_config,
            "operation_outcomes": total.outcome_letters.iter().map(|(k, v)| (k.to_string(), *v)).collect::<BTreeMap<String, u64>>(),
            "outcome_legend": "k ok on undamaged record; K ok on damaged input (judged by the reference denotation); e error on damaged input; E error on undamaged record; p panic; s step budget; - record lost",
            "exhaustive_substages": "stages whose name starts with 'exhaustive:' enumerate a finite sub-space completely and are independent of VERIF_SEED (all values of the widths 0,1,2,3,7,8,12,13 through every arm, flavour and postgres column type; all inputs of at most 1 (quick) or 2 (thorough) bytes to every decoder at those widths); the overall check remains a seeded search, so coverage.exhaustive is not set",
            "sweep": {"records": total.sweep_records, "records_with_every_bit_flipped": total.sweep_exhaustive, "exhaustive_single_fault_per_record": "every truncation offset, every read-cut offset (ERR and EOF), every write-error offset; every single-bit flip for encodings <= 128 bytes; every value of each of the first two bytes"},
            "components": {
                "real": ["ruint (rebuilt from /repo working tree): encoders, decoders, bytes.rs, string.rs, base_convert.rs, generators", "borsh", "parity-scale-codec", "alloy-rlp", "fastrlp 0.3/0.4", "rlp 0.5", "der", "ethereum_ssz", "serde_json", "bincode", "bytes", "postgres-types", "bytemuck", "num-bigint", "primitive-types", "ark-ff 0.3/0.4", "arbitrary", "quickcheck", "proptest", "rand 0.8/0.9 distributions", "num-traits", "num-integer", "subtle", "zeroize"],
                "stub": ["WriteSeam/ReadSeam (io::Write/io::Read, chunking, EINTR, hard error, EOF)", "SimInput (SCALE Input: remaining_len modes, alloc budget)", "SimDerWriter (der::Writer)", "SimSerializer/SimDeserializer (serde data model)", "SimRng08/SimRng09 (RngCore)", "medium (byte log + fault applicator)", "digit iterator"],
                "absent": ["PostgreSQL server", "network", "disk", "OS entropy (Uint::random()/randomize() hard-wire thread_rng and are not run)", "diesel / sqlx / pyo3 / bn-rs integrations (need a database backend, a Python interpreter or a JavaScript host; thin wrappers over try_from_{be,le}_slice / from_str_radix, which are run directly)"]
            },
            "violating_runs": total.violating_runs,
            "known_findings_matched": known.iter().map(|(id, (f, p))| json!({"id": id, "what": f.what, "replay": p})).collect::<Vec<_>>(),
            "violations": reported.iter().map(|(k, p, v, path, _)| json!({"class": k.class, "codec": p.codec, "bits": p.bits, "detail": v.detail, "replay": path})).collect::<Vec<_>>(),
            "build_profile": cfg.profile,
            "fatal_runs_skipped_outside_scope": cfg.skip.iter().map(|(s, i)| json!({"stage_arm_id": s, "run_index": i})).collect::<Vec<_>>(),
            "history_operation_kinds_excluded_after_fatal_run": cfg.skip_ops.iter().map(|o| json!({"op": o, "name": crate::history::op_name(*o)})).collect::<Vec<_>>(),
            "feature_configuration": if cfg!(feature = "r09") { "ruint features rand + rand-09 (inherent random_with/randomize_with are the rand 0.9 ones)" } else { "ruint feature rand only (inherent random_with/randomize_with are the rand 0.8 ones)" },
            "restriction": {"codec": cfg.codec, "bits": cfg.bits},
        },
        "assumptions": [
            "x86_64 little-endian, std; cfg(target_endian = \"big\") paths are not exercised",
            "third-party codec crates frame correctly; they are driven only through entry points that do not panic by themselves on damaged input",
            "reference encoders/decoders (arms/*.rs, reftext.rs) were written from the format definitions and cross-checked against the codec crates' own u128 encodings on every run",
            "sampling, not proof: a clean batch is evidence for the explored seeds only",
        ],
        "wall_s": wall,
        "violations": reported.len(),
    })
}

pub fn replay(path: &str, trace: bool) -> u8 {
    let text = match std::fs::read_to_string(path) {
        Ok(t) => t,
        Err(e) => {
            eprintln!("cannot read {path}: {e}");
            return 2;
        }
    };
    let plan: Plan = match serde_json::from_str(&text) {
        Ok(p) => p,
        Err(e) => {
            eprintln!("cannot parse {path}: {e}");
            return 2;
        }
    };
    let quiet = std::env::args().any(|a| a == "--quiet");
    let rep = run_plan(&plan, trace);
    if let Some(t) = &rep.trace {
        for l in t {
            println!("  {l}");
        }
    }
    let expect = plan.expect.clone();
    let hit = rep.violations.iter().find(|v| match &expect {
        Some(e) => v.class == e.class && shrink::key_of(&plan, v).skeleton == e.detail,
        None => true,
    });
    match hit {
        Some(v) => {
            if !quiet {
                println!("REPRODUCED property={} class={} codec={} bits={}", plan.property, v.class, plan.codec, plan.bits);
                println!("    {}", v.detail);
            }
            1
        }
        None if rep.violations.is_empty() => {
            if !quiet {
                println!("no violation: the recorded trace now passes (outcome={})", rep.outcome);
            }
            0
        }
        None => {
            if !quiet {
                println!("different violation(s) than recorded: {:?}", rep.violations);
            }
            // same class with different wording still counts as the defect being present
            if rep.violations.iter().any(|v| expect.as_ref().map_or(false, |e| v.class == e.class)) {
                1
            } else {
                2
            }
        }
    }
}

pub fn digest(property: &str, runs: u64, jobs: usize, seed: u64, per_run: bool) {
    let mut sum = 0u64;
    let mut all = vec![];
    for s in stages(property, "quick", 1.0) {
        if s.kind == StageKind::Sweep {
            continue;
        }
        let s = Stage { runs, ..s };
        let acc = run_stage(&s, seed, jobs, property, None, None, per_run);
        sum = sum.wrapping_add(acc.digest_sum);
        let mut d = acc.per_run_digests;
        d.sort_unstable();
        all.push((s.name, d));
    }
    if per_run {
        for (name, d) in all {
            for (i, x) in d {
                println!("{name} {i} {x:016x}");
            }
        }
    }
    println!("batch-digest {sum:016x}");
}

/// Execute a seed range of one stage without triage (used by the supervisor to isolate a fatal run).
pub fn probe(cfg: &RunCfg, arm_id: u64, from: u64, to: u64, points: Option<(usize, usize)>) -> u8 {
    let Some(stage) = stages(&cfg.property, &cfg.tier, cfg.scale).into_iter().find(|s| s.arm_id == arm_id) else { return 2 };
    let acc = run_stage_range(&stage, cfg.seed, cfg.jobs, &cfg.property, cfg.codec.as_deref(), cfg.bits, false, from, to.min(stage.runs), points, &cfg.skip);
    println!("probe: {} evaluations", acc.evals);
    0
}
