//! Value conversions without a byte seam: num-bigint, primitive-types, ark-ff 0.3 / 0.4.
//! The "medium" carries the third-party value's big-endian magnitude (written and re-read by the
//! harness), so the pipeline shape is kept. Only num-bigint (fallible `TryFrom`, listed among the
//! C17 observe points) also runs in the destructive configuration; the others are control-only.
//! flavours: 0 BigUint; 1 BigInt (aux[0] = 1: sign flipped to minus, N-NEG); 2 primitive-types
//! U128/U256/U512; 3 primitive-types H128/H160/H256/H512 <-> Bits; 4 ark-ff 0.4 `BigInt<N>`;
//! 5 ark-ff 0.3 `BigIntegerN`; 6 ark-ff 0.4 bn254 `Fr`; 7 ark-ff 0.3 bn254 `Fr`;
//! 8 / 9 / 10 ark-ff 0.4 prime fields of one, two and three limbs defined here (`small_fields`: the
//! Goldilocks prime 2^64 - 2^32 + 1, 2^128 - 159 and the NIST P-192 prime - all close to the top of
//! their limb array, so that only a few values are NOT in the field and have to be refused);
//! 11 ark-ff 0.3 `Fp64` over 2^63 - 25 (added after the sub-agent change c16y, which only shows in a
//! field whose modulus fits one limb).

use super::*;
use crate::num::{self, nbytes};
use num_bigint::{BigInt, BigUint, Sign};
use ruint::{Bits, Uint};

pub const FLAVOURS: u32 = 12;
pub const STRICT: bool = false;
pub use super::no as lossy;
pub const SEAMLESS: bool = true;

pub fn seamless_flavour(flavour: u32) -> bool {
    flavour >= 2
}

pub fn supports(bits: usize, flavour: u32) -> bool {
    match flavour {
        0 | 1 => true,
        2 => matches!(bits, 128 | 256 | 512),
        3 => matches!(bits, 128 | 160 | 256 | 512),
        4 => bits > 0,
        5 => matches!(bits, 64 | 128 | 256 | 320 | 384 | 448 | 768 | 832),
        6 | 7 => bits == 256,
        8 | 11 => bits == 64,
        9 => bits == 128,
        _ => bits == 192,
    }
}

/// Prime fields of one, two and three limbs (bn254, the only field crate in the offline registry, has four).
#[allow(clippy::all, clippy::pedantic, missing_docs, non_local_definitions)]
pub mod small_fields {
    // the `MontConfig` derive emits `ark_ff::` paths
    use ark_ff_04 as ark_ff;
    use ark_ff_04::fields::{Fp128, Fp192, Fp64, MontBackend, MontConfig};

    #[derive(MontConfig)]
    #[modulus = "18446744069414584321"]
    #[generator = "7"]
    pub struct GoldilocksConfig;
    pub type F64 = Fp64<MontBackend<GoldilocksConfig, 1>>;
    pub const P64: &str = "ffffffff00000001";

    #[derive(MontConfig)]
    #[modulus = "340282366920938463463374607431768211297"]
    #[generator = "5"]
    pub struct P128Config;
    pub type F128 = Fp128<MontBackend<P128Config, 2>>;
    pub const P128: &str = "ffffffffffffffffffffffffffffff61";

    #[derive(MontConfig)]
    #[modulus = "6277101735386680763835789423207666416083908700390324961279"]
    #[generator = "11"]
    pub struct P192Config;
    pub type F192 = Fp192<MontBackend<P192Config, 3>>;
    pub const P192: &str = "fffffffffffffffffffffffffffffffeffffffffffffffff";

    // ark-ff 0.3: hand-written parameters for p = 2^63 - 25 (prime, one spare bit as ark-ff 0.3's
    // Montgomery code expects); constants computed with sympy: R = 2^64 mod p, R2 = R^2 mod p,
    // INV = -p^-1 mod 2^64, generator 3.
    use ark_ff_03::{biginteger::BigInteger64 as B64, fields::{FftParameters, Fp64 as Fp64v3, Fp64Parameters, FpParameters}};
    pub struct P63Params;
    impl FftParameters for P63Params {
        type BigInt = B64;
        const TWO_ADICITY: u32 = 1;
        const TWO_ADIC_ROOT_OF_UNITY: B64 = B64([0x7fff_ffff_ffff_ffb5]);
    }
    impl FpParameters for P63Params {
        const MODULUS: B64 = B64([0x7fff_ffff_ffff_ffe7]);
        const MODULUS_BITS: u32 = 63;
        const REPR_SHAVE_BITS: u32 = 1;
        const R: B64 = B64([0x32]);
        const R2: B64 = B64([0x9c4]);
        const INV: u64 = 0x0f5c_28f5_c28f_5c29;
        const GENERATOR: B64 = B64([0x96]);
        const CAPACITY: u32 = 62;
        const T: B64 = B64([0x3fff_ffff_ffff_fff3]);
        const T_MINUS_ONE_DIV_TWO: B64 = B64([0x1fff_ffff_ffff_fff9]);
        const MODULUS_MINUS_ONE_DIV_TWO: B64 = B64([0x3fff_ffff_ffff_fff3]);
    }
    impl Fp64Parameters for P63Params {}
    pub type F63v3 = Fp64v3<P63Params>;
    pub const P63: &str = "7fffffffffffffe7";
}

fn modulus(flavour: u32) -> Option<&'static str> {
    match flavour {
        6 | 7 => Some(BN254_FR),
        8 => Some(small_fields::P64),
        9 => Some(small_fields::P128),
        10 => Some(small_fields::P192),
        11 => Some(small_fields::P63),
        _ => None,
    }
}
pub fn framing(_p: &Plan) -> Framing {
    Framing::Message
}
pub use super::no as io_writer;
pub use super::no as writer_fallible;
pub use super::no as io_reader;
pub use super::no as scale_input;
pub use super::no_pad0 as pad0;

const BN254_FR: &str = "30644e72e131a029b85045b68181585d2833e84879b9709143e1f593f0000001";

pub fn may_refuse(p: &Plan, vals: &[Num]) -> bool {
    modulus(p.flavour).is_some_and(|m| num::cmp(&vals[0], &num::unhex(m).unwrap()) != std::cmp::Ordering::Less)
}

pub fn ref_enc(p: &Plan, vals: &[Num]) -> Vec<u8> {
    if p.flavour == 3 {
        num::be_padded(&vals[0], nbytes(p.bits))
    } else {
        vals[0].clone()
    }
}

pub fn ref_dec(p: &Plan, offered: &[u8]) -> RefDec {
    let v = num::trim_be(offered);
    if p.flavour == 1 && p.aux(0) == 1 && !v.is_empty() {
        return RefDec::Invalid("negative");
    }
    if p.flavour == 3 && offered.len() != nbytes(p.bits) {
        return RefDec::Unknown;
    }
    if num::fits(&v, p.bits) {
        RefDec::Value(vec![v], None)
    } else {
        RefDec::Invalid("value >= 2^BITS")
    }
}

/// by-value and by-reference sibling impls must produce the same limbs
fn both(ws: &mut WriteSeam, a: Vec<u64>, b: Vec<u64>) -> Num {
    if a != b {
        ws.ctx.violate("ENC!=REF", "by-value and by-reference conversions differ");
    }
    limbs_to_num(&a)
}

fn limbs_to_num(l: &[u64]) -> Num {
    let mut be = vec![];
    for x in l.iter().rev() {
        be.extend_from_slice(&x.to_be_bytes());
    }
    num::trim_be(&be)
}

fn num_to_limbs<const N: usize>(n: &Num) -> Option<[u64; N]> {
    if n.len() > N * 8 {
        return None;
    }
    let mut l = [0u64; N];
    for (i, &b) in n.iter().rev().enumerate() {
        l[i / 8] |= u64::from(b) << (8 * (i % 8));
    }
    Some(l)
}

/// ark-ff 0.4 `Fp<MontBackend<_, N>, N>` of a field defined in `small_fields`: Uint -> Fp by value and by
/// reference must agree; the canonical representative is what reaches the medium.
fn fp04<F, const B2: usize, const N: usize>(ws: &mut WriteSeam, v: &Num) -> Result<Num, String>
where
    F: ark_ff_04::PrimeField<BigInt = ark_ff_04::BigInt<N>> + TryFrom<Uint<B2, N>, Error = ruint::ToFieldError> + for<'a> TryFrom<&'a Uint<B2, N>, Error = ruint::ToFieldError>,
{
    let u = num::to_uint::<B2, N>(v);
    let f = F::try_from(u).map_err(|e| format!("{e:?}"))?;
    if F::try_from(&u).ok() != Some(f) {
        ws.ctx.violate("ENC!=REF", "Fp::try_from(Uint) and try_from(&Uint) differ");
    }
    Ok(limbs_to_num(&f.into_bigint().0))
}

fn from_fp04<F, const B2: usize, const N: usize>(rs: &mut ReadSeam, mag: &Num) -> Result<Num, String>
where
    F: ark_ff_04::PrimeField<BigInt = ark_ff_04::BigInt<N>>,
    Uint<B2, N>: From<F> + for<'a> From<&'a F>,
{
    let l: [u64; N] = num_to_limbs(mag).ok_or("harness: too wide")?;
    let f = F::from_bigint(ark_ff_04::BigInt::<N>::new(l)).ok_or("harness: not in field")?;
    let u = <Uint<B2, N> as From<F>>::from(f);
    if <Uint<B2, N> as From<&F>>::from(&f) != u {
        rs.ctx.violate("LIE", "From<Fp> and From<&Fp> disagree");
    }
    Ok(rs.ctx.observe("From<Fp 0.4, small field>", &u))
}

pub fn encode<const B: usize, const L: usize>(ws: &mut WriteSeam, p: &Plan, vals: &[Num]) -> EncResult {
    let v = &vals[0];
    let u: Uint<B, L> = num::to_uint(v);
    let out: Vec<u8> = match p.flavour {
        0 => {
            let a = BigUint::from(u);
            if a != BigUint::from(&u) {
                ws.ctx.violate("ENC!=REF", "BigUint::from(Uint) != BigUint::from(&Uint)");
            }
            num::from_biguint(&a)
        }
        1 => {
            let a = BigInt::from(u);
            if a != BigInt::from(&u) || a.sign() == Sign::Minus {
                ws.ctx.violate("ENC!=REF", "BigInt::from(Uint) inconsistent or negative");
            }
            num::from_biguint(a.magnitude())
        }
        2 => match p.bits {
            128 => limbs_to_num(&primitive_types::U128::from(num::to_uint::<128, 2>(v)).0),
            256 => limbs_to_num(&primitive_types::U256::from(num::to_uint::<256, 4>(v)).0),
            _ => limbs_to_num(&primitive_types::U512::from(num::to_uint::<512, 8>(v)).0),
        },
        3 => match p.bits {
            128 => primitive_types::H128::from(Bits::from(num::to_uint::<128, 2>(v))).0.to_vec(),
            160 => primitive_types::H160::from(Bits::from(num::to_uint::<160, 3>(v))).0.to_vec(),
            256 => primitive_types::H256::from(Bits::from(num::to_uint::<256, 4>(v))).0.to_vec(),
            _ => primitive_types::H512::from(Bits::from(num::to_uint::<512, 8>(v))).0.to_vec(),
        },
        4 => {
            let a = ark_ff_04::BigInt::<L>::from(u);
            let b = ark_ff_04::BigInt::<L>::from(&u);
            if a != b {
                ws.ctx.violate("ENC!=REF", "ark BigInt::from(Uint) != from(&Uint)");
            }
            limbs_to_num(&a.0)
        }
        5 => {
            use ark_ff_03::biginteger::*;
            match p.bits {
                64 => both(ws, BigInteger64::from(num::to_uint::<64, 1>(v)).0.to_vec(), BigInteger64::from(&num::to_uint::<64, 1>(v)).0.to_vec()),
                128 => both(ws, BigInteger128::from(num::to_uint::<128, 2>(v)).0.to_vec(), BigInteger128::from(&num::to_uint::<128, 2>(v)).0.to_vec()),
                256 => both(ws, BigInteger256::from(num::to_uint::<256, 4>(v)).0.to_vec(), BigInteger256::from(&num::to_uint::<256, 4>(v)).0.to_vec()),
                320 => both(ws, BigInteger320::from(num::to_uint::<320, 5>(v)).0.to_vec(), BigInteger320::from(&num::to_uint::<320, 5>(v)).0.to_vec()),
                384 => both(ws, BigInteger384::from(num::to_uint::<384, 6>(v)).0.to_vec(), BigInteger384::from(&num::to_uint::<384, 6>(v)).0.to_vec()),
                448 => both(ws, BigInteger448::from(num::to_uint::<448, 7>(v)).0.to_vec(), BigInteger448::from(&num::to_uint::<448, 7>(v)).0.to_vec()),
                832 => both(ws, BigInteger832::from(num::to_uint::<832, 13>(v)).0.to_vec(), BigInteger832::from(&num::to_uint::<832, 13>(v)).0.to_vec()),
                _ => both(ws, BigInteger768::from(num::to_uint::<768, 12>(v)).0.to_vec(), BigInteger768::from(&num::to_uint::<768, 12>(v)).0.to_vec()),
            }
        }
        6 => {
            use ark_ff_04::PrimeField;
            let f = ark_bn254_04::Fr::try_from(num::to_uint::<256, 4>(v)).map_err(|e| format!("{e:?}"))?;
            if ark_bn254_04::Fr::try_from(&num::to_uint::<256, 4>(v)).ok() != Some(f) {
                ws.ctx.violate("ENC!=REF", "Fp::try_from(Uint) and try_from(&Uint) differ");
            }
            limbs_to_num(&f.into_bigint().0)
        }
        8 => fp04::<small_fields::F64, 64, 1>(ws, v)?,
        9 => fp04::<small_fields::F128, 128, 2>(ws, v)?,
        10 => fp04::<small_fields::F192, 192, 3>(ws, v)?,
        11 => {
            use ark_ff_03::PrimeField;
            let f = small_fields::F63v3::try_from(num::to_uint::<64, 1>(v)).map_err(|e| format!("{e:?}"))?;
            if small_fields::F63v3::try_from(&num::to_uint::<64, 1>(v)).ok() != Some(f) {
                ws.ctx.violate("ENC!=REF", "Fp::try_from(Uint) and try_from(&Uint) differ");
            }
            limbs_to_num(&f.into_repr().0)
        }
        _ => {
            use ark_ff_03::PrimeField;
            let f = ark_bn254_03::Fr::try_from(num::to_uint::<256, 4>(v)).map_err(|e| format!("{e:?}"))?;
            if ark_bn254_03::Fr::try_from(&num::to_uint::<256, 4>(v)).ok() != Some(f) {
                ws.ctx.violate("ENC!=REF", "Fp::try_from(Uint) and try_from(&Uint) differ");
            }
            limbs_to_num(&f.into_repr().0)
        }
    };
    ws.append(&out);
    Ok(())
}

pub fn decode<const B: usize, const L: usize>(rs: &mut ReadSeam, p: &Plan) -> DecResult {
    rs.note_cut_for_slice();
    let s = rs.rest();
    let mag = num::trim_be(s);
    let n = match p.flavour {
        0 => {
            let b = BigUint::from_bytes_be(s);
            let r1 = Uint::<B, L>::try_from(&b);
            let r2 = Uint::<B, L>::try_from(b);
            if r1.is_ok() != r2.is_ok() || (r1.is_ok() && r1.as_ref().ok() != r2.as_ref().ok()) {
                rs.ctx.violate("LIE", "TryFrom<BigUint> and TryFrom<&BigUint> disagree");
            }
            let u = r1.map_err(|e| format!("{e:?}"))?;
            rs.ctx.observe("TryFrom<BigUint>", &u)
        }
        1 => {
            let sign = if p.aux(0) == 1 {
                rs.ctx.fire("N-NEG");
                Sign::Minus
            } else {
                Sign::Plus
            };
            let b = BigInt::from_bytes_be(sign, s);
            let r1 = Uint::<B, L>::try_from(&b);
            let r2 = Uint::<B, L>::try_from(b);
            if r1.is_ok() != r2.is_ok() || (r1.is_ok() && r1.as_ref().ok() != r2.as_ref().ok()) {
                rs.ctx.violate("LIE", "TryFrom<BigInt> and TryFrom<&BigInt> disagree");
            }
            let u = r1.map_err(|e| format!("{e:?}"))?;
            rs.ctx.observe("TryFrom<BigInt>", &u)
        }
        2 => {
            let bad = || "harness: magnitude too wide".to_string();
            match p.bits {
                128 => rs.ctx.observe("From<U128>", &<Uint<128, 2> as From<_>>::from(primitive_types::U128(num_to_limbs(&mag).ok_or_else(bad)?))),
                256 => rs.ctx.observe("From<U256>", &<Uint<256, 4> as From<_>>::from(primitive_types::U256(num_to_limbs(&mag).ok_or_else(bad)?))),
                _ => rs.ctx.observe("From<U512>", &<Uint<512, 8> as From<_>>::from(primitive_types::U512(num_to_limbs(&mag).ok_or_else(bad)?))),
            }
        }
        3 => {
            if s.len() != nbytes(p.bits) {
                return Err("harness: H* needs the exact size".into());
            }
            match p.bits {
                128 => rs.ctx.observe("From<H128>", Bits::<128, 2>::from(primitive_types::H128::from_slice(s)).as_uint()),
                160 => rs.ctx.observe("From<H160>", Bits::<160, 3>::from(primitive_types::H160::from_slice(s)).as_uint()),
                256 => rs.ctx.observe("From<H256>", Bits::<256, 4>::from(primitive_types::H256::from_slice(s)).as_uint()),
                _ => rs.ctx.observe("From<H512>", Bits::<512, 8>::from(primitive_types::H512::from_slice(s)).as_uint()),
            }
        }
        4 => {
            if !num::fits(&mag, B) {
                return Err("harness: From<BigInt<N>> documents a panic for out-of-range limbs".into());
            }
            let l: [u64; L] = num_to_limbs(&mag).ok_or("harness: too wide")?;
            let big = ark_ff_04::BigInt::<L>::new(l);
            let u = <Uint<B, L> as From<_>>::from(big);
            if <Uint<B, L> as From<&ark_ff_04::BigInt<L>>>::from(&big) != u {
                rs.ctx.violate("LIE", "From<BigInt> and From<&BigInt> disagree");
            }
            rs.ctx.observe("From<ark BigInt>", &u)
        }
        5 => {
            use ark_ff_03::biginteger::*;
            let bad = || "harness: magnitude too wide".to_string();
            match p.bits {
                64 => {
                    let big = BigInteger64(num_to_limbs(&mag).ok_or_else(bad)?);
                    let u = <Uint<64, 1> as From<_>>::from(big);
                    if <Uint<64, 1> as From<&BigInteger64>>::from(&big) != u {
                        rs.ctx.violate("LIE", "From<BigInteger> and From<&BigInteger> disagree");
                    }
                    rs.ctx.observe("From<BigInteger64>", &u)
                },
                128 => {
                    let big = BigInteger128(num_to_limbs(&mag).ok_or_else(bad)?);
                    let u = <Uint<128, 2> as From<_>>::from(big);
                    if <Uint<128, 2> as From<&BigInteger128>>::from(&big) != u {
                        rs.ctx.violate("LIE", "From<BigInteger> and From<&BigInteger> disagree");
                    }
                    rs.ctx.observe("From<BigInteger128>", &u)
                },
                256 => {
                    let big = BigInteger256(num_to_limbs(&mag).ok_or_else(bad)?);
                    let u = <Uint<256, 4> as From<_>>::from(big);
                    if <Uint<256, 4> as From<&BigInteger256>>::from(&big) != u {
                        rs.ctx.violate("LIE", "From<BigInteger> and From<&BigInteger> disagree");
                    }
                    rs.ctx.observe("From<BigInteger256>", &u)
                },
                320 => {
                    let big = BigInteger320(num_to_limbs(&mag).ok_or_else(bad)?);
                    let u = <Uint<320, 5> as From<_>>::from(big);
                    if <Uint<320, 5> as From<&BigInteger320>>::from(&big) != u {
                        rs.ctx.violate("LIE", "From<BigInteger> and From<&BigInteger> disagree");
                    }
                    rs.ctx.observe("From<BigInteger320>", &u)
                },
                384 => {
                    let big = BigInteger384(num_to_limbs(&mag).ok_or_else(bad)?);
                    let u = <Uint<384, 6> as From<_>>::from(big);
                    if <Uint<384, 6> as From<&BigInteger384>>::from(&big) != u {
                        rs.ctx.violate("LIE", "From<BigInteger> and From<&BigInteger> disagree");
                    }
                    rs.ctx.observe("From<BigInteger384>", &u)
                },
                448 => {
                    let big = BigInteger448(num_to_limbs(&mag).ok_or_else(bad)?);
                    let u = <Uint<448, 7> as From<_>>::from(big);
                    if <Uint<448, 7> as From<&BigInteger448>>::from(&big) != u {
                        rs.ctx.violate("LIE", "From<BigInteger> and From<&BigInteger> disagree");
                    }
                    rs.ctx.observe("From<BigInteger448>", &u)
                },
                832 => {
                    let big = BigInteger832(num_to_limbs(&mag).ok_or_else(bad)?);
                    let u = <Uint<832, 13> as From<_>>::from(big);
                    if <Uint<832, 13> as From<&BigInteger832>>::from(&big) != u {
                        rs.ctx.violate("LIE", "From<BigInteger> and From<&BigInteger> disagree");
                    }
                    rs.ctx.observe("From<BigInteger832>", &u)
                },
                _ => {
                    let big = BigInteger768(num_to_limbs(&mag).ok_or_else(bad)?);
                    let u = <Uint<768, 12> as From<_>>::from(big);
                    if <Uint<768, 12> as From<&BigInteger768>>::from(&big) != u {
                        rs.ctx.violate("LIE", "From<BigInteger> and From<&BigInteger> disagree");
                    }
                    rs.ctx.observe("From<BigInteger768>", &u)
                },
            }
        }
        6 => {
            use ark_ff_04::PrimeField;
            let l: [u64; 4] = num_to_limbs(&mag).ok_or("harness: too wide")?;
            let f = ark_bn254_04::Fr::from_bigint(ark_ff_04::BigInt::<4>::new(l)).ok_or("harness: not in field")?;
            let u = <Uint<256, 4> as From<_>>::from(f);
            if <Uint<256, 4> as From<&ark_bn254_04::Fr>>::from(&f) != u {
                rs.ctx.violate("LIE", "From<Fp> and From<&Fp> disagree");
            }
            rs.ctx.observe("From<Fr 0.4>", &u)
        }
        8 => from_fp04::<small_fields::F64, 64, 1>(rs, &mag)?,
        9 => from_fp04::<small_fields::F128, 128, 2>(rs, &mag)?,
        10 => from_fp04::<small_fields::F192, 192, 3>(rs, &mag)?,
        11 => {
            use ark_ff_03::PrimeField;
            let l: [u64; 1] = num_to_limbs(&mag).ok_or("harness: too wide")?;
            let f = small_fields::F63v3::from_repr(ark_ff_03::biginteger::BigInteger64(l)).ok_or("harness: not in field")?;
            let u = <Uint<64, 1> as From<_>>::from(f);
            if <Uint<64, 1> as From<&small_fields::F63v3>>::from(&f) != u {
                rs.ctx.violate("LIE", "From<Fp> and From<&Fp> disagree");
            }
            rs.ctx.observe("From<Fp64 0.3>", &u)
        }
        _ => {
            use ark_ff_03::PrimeField;
            let l: [u64; 4] = num_to_limbs(&mag).ok_or("harness: too wide")?;
            let f = ark_bn254_03::Fr::from_repr(ark_ff_03::biginteger::BigInteger256(l)).ok_or("harness: not in field")?;
            let u = <Uint<256, 4> as From<_>>::from(f);
            if <Uint<256, 4> as From<&ark_bn254_03::Fr>>::from(&f) != u {
                rs.ctx.violate("LIE", "From<Fp> and From<&Fp> disagree");
            }
            rs.ctx.observe("From<Fr 0.3>", &u)
        }
    };
    rs.advance(s.len());
    Ok((vec![n], None))
}
