//! serde, binary side, through the real bincode 1.3 (fixint, length-prefixed byte string).
//! flavours: 0 `serialize_into(io seam)` / `deserialize_from(io seam)` stream; 1 `serialize` /
//! `deserialize(slice)` message; 2 `Vec<Uint>` through io seams; 3 `Bits` stream.

use super::*;
use crate::num::{self, nbytes};
use ::bincode::Options;
use ruint::{Bits, Uint};

pub const FLAVOURS: u32 = 4;
pub const STRICT: bool = false;
pub use super::never_refuse as may_refuse;
pub use super::no as lossy;
pub use super::has_seam as seamless_flavour;
pub const SEAMLESS: bool = false;

pub fn supports(_bits: usize, _flavour: u32) -> bool {
    true
}
pub fn framing(p: &Plan) -> Framing {
    match p.flavour {
        1 => Framing::Message,
        2 => Framing::Container,
        _ => Framing::Stream,
    }
}
pub fn io_writer(p: &Plan) -> bool {
    p.flavour != 1
}
pub fn writer_fallible(p: &Plan) -> bool {
    p.flavour != 1
}
pub fn io_reader(p: &Plan) -> bool {
    p.flavour != 1
}
pub use super::no as scale_input;
pub use super::no_pad0 as pad0;

/// Same bytes as `bincode::serialize`; the limit turns a corrupted length prefix on the
/// reader-backed path into an error instead of a 2^60-byte allocation inside bincode.
fn opts() -> impl Options {
    ::bincode::DefaultOptions::new()
        .with_fixint_encoding()
        .allow_trailing_bytes()
        .with_limit(65536)
}

fn enc_item(bits: usize, v: &Num) -> Vec<u8> {
    let nb = nbytes(bits);
    let mut out = (nb as u64).to_le_bytes().to_vec();
    out.extend(num::be_padded(v, nb));
    out
}

pub fn ref_enc(p: &Plan, vals: &[Num]) -> Vec<u8> {
    let mut out = vec![];
    if p.flavour == 2 {
        out.extend_from_slice(&(vals.len() as u64).to_le_bytes());
    }
    for v in vals {
        out.extend(enc_item(p.bits, v));
    }
    out
}

fn dec_item(bits: usize, b: &[u8]) -> Result<(Num, usize), &'static str> {
    if b.len() < 8 {
        return Err(TRUNCATED);
    }
    let len = u64::from_le_bytes(b[..8].try_into().unwrap());
    if len > (b.len() - 8) as u64 {
        return Err(TRUNCATED);
    }
    let len = len as usize;
    if len != nbytes(bits) {
        return Err("byte string length != BYTES");
    }
    let v = num::trim_be(&b[8..8 + len]);
    if !num::fits(&v, bits) {
        return Err("value >= 2^BITS");
    }
    Ok((v, 8 + len))
}

pub fn ref_dec(p: &Plan, offered: &[u8]) -> RefDec {
    if p.flavour == 2 {
        if offered.len() < 8 {
            return RefDec::Invalid(TRUNCATED);
        }
        let count = u64::from_le_bytes(offered[..8].try_into().unwrap());
        let mut pos = 8;
        let mut vals = vec![];
        for _ in 0..count {
            match dec_item(p.bits, &offered[pos..]) {
                Ok((v, n)) => {
                    vals.push(v);
                    pos += n;
                }
                Err(e) => return RefDec::Invalid(e),
            }
            if vals.len() > 8192 {
                return RefDec::Unknown;
            }
        }
        return RefDec::Value(vals, Some(pos));
    }
    match dec_item(p.bits, offered) {
        Ok((v, n)) => RefDec::Value(vec![v], if p.flavour == 1 { None } else { Some(n) }),
        Err(e) => RefDec::Invalid(e),
    }
}

pub fn encode<const B: usize, const L: usize>(ws: &mut WriteSeam, p: &Plan, vals: &[Num]) -> EncResult {
    let us: Vec<Uint<B, L>> = vals.iter().map(num::to_uint).collect();
    let e = |e: ::bincode::Error| e.to_string();
    match p.flavour {
        0 => {
            let sz = opts().serialized_size(&us[0]).map_err(e)?;
            if sz as usize != enc_item(B, &vals[0]).len() {
                ws.ctx.violate("LEN", format!("bincode serialized_size = {sz} but the encoding has {} bytes", enc_item(B, &vals[0]).len()));
            }
            opts().serialize_into(&mut *ws, &us[0]).map_err(e)?;
        }
        1 => {
            let v = ::bincode::serialize(&us[0]).map_err(e)?;
            ws.append(&v);
        }
        2 => opts().serialize_into(&mut *ws, &us).map_err(e)?,
        _ => opts().serialize_into(&mut *ws, &Bits::from(us[0])).map_err(e)?,
    }
    Ok(())
}

pub fn decode<const B: usize, const L: usize>(rs: &mut ReadSeam, p: &Plan) -> DecResult {
    let e = |e: ::bincode::Error| e.to_string();
    let pos0 = rs.pos;
    match p.flavour {
        0 => {
            let u: Uint<B, L> = opts().deserialize_from(&mut *rs).map_err(e)?;
            let n = rs.ctx.observe("bincode decode", &u);
            Ok((vec![n], Some(rs.pos - pos0)))
        }
        1 => {
            rs.note_cut_for_slice();
            let s = rs.rest();
            let u: Uint<B, L> = ::bincode::deserialize(s).map_err(e)?;
            rs.advance(s.len());
            let n = rs.ctx.observe("bincode decode", &u);
            Ok((vec![n], None))
        }
        2 => {
            let us: Vec<Uint<B, L>> = opts().deserialize_from(&mut *rs).map_err(e)?;
            let ns = us.iter().map(|u| rs.ctx.observe("bincode Vec item", u)).collect();
            Ok((ns, Some(rs.pos - pos0)))
        }
        _ => {
            let b: Bits<B, L> = opts().deserialize_from(&mut *rs).map_err(e)?;
            let n = rs.ctx.observe("bincode Bits decode", b.as_uint());
            Ok((vec![n], Some(rs.pos - pos0)))
        }
    }
}
