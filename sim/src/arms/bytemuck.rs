//! bytemuck `Pod` (limb-aligned widths only). Native-endian limbs; every bit pattern is valid.
//! flavours: 0 `bytes_of` / `pod_read_unaligned`; 1 `cast_slice` of all records /
//! `try_cast_slice` (container); 2 `bytes_of` / `try_from_bytes` on an 8-aligned copy.

use super::*;
use crate::num::{self, nbytes};
use ruint::Uint;

pub const FLAVOURS: u32 = 3;
pub const STRICT: bool = false;
pub use super::never_refuse as may_refuse;
pub use super::no as lossy;
pub use super::has_seam as seamless_flavour;
pub const SEAMLESS: bool = false;

pub const POD: &[usize] = &[64, 128, 192, 256, 320, 384, 448, 512, 576, 640, 704, 768, 832, 896, 960, 1024];

pub fn supports(bits: usize, _flavour: u32) -> bool {
    POD.contains(&bits)
}
pub fn framing(p: &Plan) -> Framing {
    if p.flavour == 1 {
        Framing::Container
    } else {
        Framing::Message
    }
}
pub use super::no as io_writer;
pub use super::no as writer_fallible;
pub use super::no as io_reader;
pub use super::no as scale_input;
pub use super::no_pad0 as pad0;

pub fn ref_enc(p: &Plan, vals: &[Num]) -> Vec<u8> {
    // x86_64: native endian = little endian, limb order little endian
    vals.iter().flat_map(|v| num::le_padded(v, nbytes(p.bits))).collect()
}

pub fn ref_dec(p: &Plan, offered: &[u8]) -> RefDec {
    let nb = nbytes(p.bits);
    if p.flavour == 1 {
        if offered.len() % nb != 0 {
            return RefDec::Invalid(TRUNCATED);
        }
        return RefDec::Value(offered.chunks(nb).map(num::from_le).collect(), None);
    }
    if offered.len() < nb {
        return RefDec::Invalid(TRUNCATED);
    }
    if offered.len() > nb {
        return RefDec::Invalid("wrong size");
    }
    RefDec::Value(vec![num::from_le(offered)], None)
}

macro_rules! pod_width {
    ($bits:expr, |$B:ident, $L:ident| $body:block) => {
        match $bits {
            64 => { const $B: usize = 64; const $L: usize = 1; $body }
            128 => { const $B: usize = 128; const $L: usize = 2; $body }
            192 => { const $B: usize = 192; const $L: usize = 3; $body }
            256 => { const $B: usize = 256; const $L: usize = 4; $body }
            320 => { const $B: usize = 320; const $L: usize = 5; $body }
            384 => { const $B: usize = 384; const $L: usize = 6; $body }
            448 => { const $B: usize = 448; const $L: usize = 7; $body }
            512 => { const $B: usize = 512; const $L: usize = 8; $body }
            576 => { const $B: usize = 576; const $L: usize = 9; $body }
            640 => { const $B: usize = 640; const $L: usize = 10; $body }
            704 => { const $B: usize = 704; const $L: usize = 11; $body }
            832 => { const $B: usize = 832; const $L: usize = 13; $body }
            896 => { const $B: usize = 896; const $L: usize = 14; $body }
            960 => { const $B: usize = 960; const $L: usize = 15; $body }
            768 => { const $B: usize = 768; const $L: usize = 12; $body }
            1024 => { const $B: usize = 1024; const $L: usize = 16; $body }
            _ => unreachable!("not a Pod width"),
        }
    };
}

pub fn encode<const B_: usize, const L_: usize>(ws: &mut WriteSeam, p: &Plan, vals: &[Num]) -> EncResult {
    pod_width!(p.bits, |B, L| {
        let us: Vec<Uint<B, L>> = vals.iter().map(num::to_uint).collect();
        if p.flavour == 1 {
            ws.append(::bytemuck::cast_slice::<Uint<B, L>, u8>(&us));
        } else {
            ws.append(::bytemuck::bytes_of(&us[0]));
        }
    });
    Ok(())
}

pub fn decode<const B_: usize, const L_: usize>(rs: &mut ReadSeam, p: &Plan) -> DecResult {
    rs.note_cut_for_slice();
    let s = rs.rest();
    // an 8-aligned copy, so that alignment is never the reason for a refusal
    let mut store = vec![0u64; s.len() / 8 + 1];
    let aligned: &mut [u8] = &mut ::bytemuck::cast_slice_mut::<u64, u8>(&mut store)[..s.len()];
    aligned.copy_from_slice(s);
    let out = pod_width!(p.bits, |B, L| {
        match p.flavour {
            0 => {
                if s.len() != nbytes(B) {
                    return Err("harness: pod_read_unaligned needs the exact size".into());
                }
                let u: Uint<B, L> = ::bytemuck::pod_read_unaligned(s);
                vec![rs.ctx.observe("bytemuck read", &u)]
            }
            1 => {
                let us: &[Uint<B, L>] = ::bytemuck::try_cast_slice(&*aligned).map_err(|e| e.to_string())?;
                us.iter().map(|u| rs.ctx.observe("bytemuck cast item", u)).collect()
            }
            _ => {
                let u: &Uint<B, L> = ::bytemuck::try_from_bytes(&*aligned).map_err(|e| e.to_string())?;
                vec![rs.ctx.observe("bytemuck from_bytes", u)]
            }
        }
    });
    rs.advance(s.len());
    Ok((out, None))
}
