//! parity-scale-codec. This module = the "fixed" form (`Encode`/`Decode` for `Uint`, which ruint
//! defines as `compact(len) ++ LE bytes`); `compact` = `HasCompact` (`CompactRefUint` /
//! `CompactUint`).
//! flavours (both): 0 `encode_to(io::Write seam)` / `SimInput`; 1 `encode()` (Vec sized by
//! size_hint) / slice cursor; 2 `using_encoded` / `IoReader(io::Read seam)`; 3 `Vec<Uint>` /
//! `Vec<Compact>` container through seam + `SimInput`.

use super::*;
use crate::num::{self, nbytes};
use crate::seams::scale::SimInput;
use parity_scale_codec::{Compact, Decode, Encode, IoReader, MaxEncodedLen};
use ruint::Uint;

pub const FLAVOURS: u32 = 4;
pub const STRICT: bool = false;
pub use super::never_refuse as may_refuse;
pub use super::no as lossy;
pub use super::has_seam as seamless_flavour;
pub const SEAMLESS: bool = false;

pub fn supports(_bits: usize, _flavour: u32) -> bool {
    true
}
pub fn framing(p: &Plan) -> Framing {
    if p.flavour == 3 {
        Framing::Container
    } else {
        Framing::Stream
    }
}
pub fn io_writer(p: &Plan) -> bool {
    p.flavour == 0 || p.flavour == 3
}
pub use super::no as writer_fallible; // `Output` has no error path
pub fn io_reader(p: &Plan) -> bool {
    p.flavour != 1
}
pub fn scale_input(p: &Plan) -> bool {
    p.flavour == 0 || p.flavour == 3
}
pub use super::no_pad0 as pad0;

/// Reference SCALE compact encoding of a number (four modes).
pub fn compact_enc(v: &Num) -> Vec<u8> {
    let bl = num::bit_len(v);
    if bl <= 6 {
        let x = num::to_u128(v).unwrap() as u8;
        vec![x << 2]
    } else if bl <= 14 {
        let x = num::to_u128(v).unwrap() as u16;
        ((x << 2) | 1).to_le_bytes().to_vec()
    } else if bl <= 30 {
        let x = num::to_u128(v).unwrap() as u32;
        ((x << 2) | 2).to_le_bytes().to_vec()
    } else {
        let n = v.len();
        assert!((4..=67).contains(&n));
        let mut out = vec![(((n - 4) << 2) | 3) as u8];
        out.extend(v.iter().rev());
        out
    }
}

/// Reference compact decoding: (value, consumed, minimal?) or Err(reason).
pub fn compact_dec(b: &[u8]) -> Result<(Num, usize, bool), &'static str> {
    let Some(&p) = b.first() else { return Err(TRUNCATED) };
    match p & 3 {
        0 => Ok((num::from_u128(u128::from(p >> 2)), 1, true)),
        1 => {
            if b.len() < 2 {
                return Err(TRUNCATED);
            }
            let x = u16::from_le_bytes([b[0], b[1]]) >> 2;
            Ok((num::from_u128(u128::from(x)), 2, x >= 1 << 6))
        }
        2 => {
            if b.len() < 4 {
                return Err(TRUNCATED);
            }
            let x = u32::from_le_bytes([b[0], b[1], b[2], b[3]]) >> 2;
            Ok((num::from_u128(u128::from(x)), 4, x >= 1 << 14))
        }
        _ => {
            let n = (p >> 2) as usize + 4;
            if b.len() < 1 + n {
                return Err(TRUNCATED);
            }
            let v = num::from_le(&b[1..1 + n]);
            let minimal = v.len() == n && num::bit_len(&v) > 30;
            Ok((v, 1 + n, minimal))
        }
    }
}

pub fn ref_enc_one(bits: usize, v: &Num) -> Vec<u8> {
    let nb = nbytes(bits);
    let mut out = compact_enc(&num::from_u128(nb as u128));
    out.extend_from_slice(&num::le_padded(v, nb));
    out
}

pub fn ref_enc(p: &Plan, vals: &[Num]) -> Vec<u8> {
    let mut out = vec![];
    if p.flavour == 3 {
        out.extend(compact_enc(&num::from_u128(vals.len() as u128)));
    }
    for v in vals {
        out.extend(ref_enc_one(p.bits, v));
    }
    out
}

pub fn ref_dec_one(bits: usize, b: &[u8]) -> Result<(Num, usize), Option<&'static str>> {
    // Err(None) = Unknown
    let nb = nbytes(bits);
    let (len, used, minimal) = compact_dec(b).map_err(Some)?;
    if !minimal {
        return Err(None); // parity's Compact<u32> decides
    }
    let Some(len) = num::to_u128(&len).filter(|&l| l <= u128::from(u32::MAX)) else { return Err(None) };
    let len = len as usize;
    if b.len() - used < len {
        return Err(Some(TRUNCATED));
    }
    if len > nb {
        return Err(Some("byte string longer than BYTES"));
    }
    let v = num::from_le(&b[used..used + len]);
    if !num::fits(&v, bits) {
        return Err(Some("value >= 2^BITS"));
    }
    Ok((v, used + len))
}

pub fn container_dec(b: &[u8], mut item: impl FnMut(&[u8]) -> Result<(Num, usize), Option<&'static str>>) -> RefDec {
    let (count, mut pos, minimal) = match compact_dec(b) {
        Ok(x) => x,
        Err(e) => return RefDec::Invalid(e),
    };
    if !minimal {
        return RefDec::Unknown;
    }
    let Some(count) = num::to_u128(&count).filter(|&c| c <= u128::from(u32::MAX)) else { return RefDec::Unknown };
    let mut vals = vec![];
    for _ in 0..count {
        match item(&b[pos..]) {
            Ok((v, n)) => {
                vals.push(v);
                pos += n;
            }
            Err(Some(e)) => return RefDec::Invalid(e),
            Err(None) => return RefDec::Unknown,
        }
        if vals.len() > 4096 {
            return RefDec::Unknown;
        }
    }
    RefDec::Value(vals, Some(pos))
}

pub fn ref_dec(p: &Plan, offered: &[u8]) -> RefDec {
    if p.flavour == 3 {
        return container_dec(offered, |b| ref_dec_one(p.bits, b));
    }
    match ref_dec_one(p.bits, offered) {
        Ok((v, n)) => RefDec::Value(vec![v], Some(n)),
        Err(Some(e)) => RefDec::Invalid(e),
        Err(None) => RefDec::Unknown,
    }
}

pub fn encode<const B: usize, const L: usize>(ws: &mut WriteSeam, p: &Plan, vals: &[Num]) -> EncResult {
    let us: Vec<Uint<B, L>> = vals.iter().map(num::to_uint).collect();
    for (u, v) in us.iter().zip(vals) {
        let want = ref_enc_one(B, v).len();
        if u.encoded_size() != want {
            ws.ctx.violate("LEN", format!("SCALE encoded_size() = {} but the encoding has {want} bytes", u.encoded_size()));
        }
        let max = <Uint<B, L> as MaxEncodedLen>::max_encoded_len();
        if max < want {
            ws.ctx.violate("LEN", format!("SCALE max_encoded_len() = {max} < {want} bytes actually produced (Uint<{B}>)"));
        }
        // same format for the equal primitive (only where the widths coincide)
        if B == 64 || B == 128 {
            let prim = if B == 64 { (num::to_u128(v).unwrap() as u64).encode() } else { num::to_u128(v).unwrap().encode() };
            if prim != ref_enc_one(B, v) {
                ws.ctx.violate("PRIM!=", format!("SCALE fixed encoding of Uint<{B}> differs from parity-scale-codec's own u{B} encoding"));
            }
        }
    }
    match p.flavour {
        0 => us[0].encode_to(ws),
        1 => {
            let v = us[0].encode();
            ws.append(&v);
        }
        2 => {
            let v = us[0].using_encoded(<[u8]>::to_vec);
            ws.append(&v);
        }
        _ => us.encode_to(ws),
    }
    Ok(())
}

pub fn decode<const B: usize, const L: usize>(rs: &mut ReadSeam, p: &Plan) -> DecResult {
    let pos0 = rs.pos;
    match p.flavour {
        0 => {
            let u = Uint::<B, L>::decode(&mut SimInput { rs }).map_err(|e| e.to_string())?;
            let n = rs.ctx.observe("SCALE decode", &u);
            Ok((vec![n], Some(rs.pos - pos0)))
        }
        1 => {
            rs.note_cut_for_slice();
            let s = rs.rest();
            let mut cur = s;
            let u = Uint::<B, L>::decode(&mut cur).map_err(|e| e.to_string())?;
            let used = s.len() - cur.len();
            rs.advance(used);
            let n = rs.ctx.observe("SCALE decode", &u);
            Ok((vec![n], Some(used)))
        }
        2 => {
            let u = {
                let mut r = IoReader(&mut *rs);
                Uint::<B, L>::decode(&mut r).map_err(|e| e.to_string())?
            };
            let n = rs.ctx.observe("SCALE decode", &u);
            Ok((vec![n], Some(rs.pos - pos0)))
        }
        _ => {
            let us = Vec::<Uint<B, L>>::decode(&mut SimInput { rs }).map_err(|e| e.to_string())?;
            let ns = us.iter().map(|u| rs.ctx.observe("SCALE Vec item", u)).collect();
            Ok((ns, Some(rs.pos - pos0)))
        }
    }
}

pub mod compact {
    use super::*;
    use ruint::support::scale::{CompactRefUint, CompactUint};

    pub const FLAVOURS: u32 = 4;
    pub const STRICT: bool = false;
    pub const SEAMLESS: bool = false;

    pub fn supports(bits: usize, _flavour: u32) -> bool {
        bits < 536 // the library documents a panic for wider types
    }
    pub use super::framing;
    pub use super::super::never_refuse as may_refuse;
    pub use super::super::no as lossy;
    pub use super::super::has_seam as seamless_flavour;
    pub use super::io_reader;
    pub use super::io_writer;
    pub use super::scale_input;
    pub use super::writer_fallible;

    pub fn ref_enc(p: &Plan, vals: &[Num]) -> Vec<u8> {
        let mut out = vec![];
        if p.flavour == 3 {
            out.extend(compact_enc(&num::from_u128(vals.len() as u128)));
        }
        for v in vals {
            out.extend(compact_enc(v));
        }
        out
    }

    fn one(bits: usize, b: &[u8]) -> Result<(Num, usize), Option<&'static str>> {
        let (v, n, _minimal) = compact_dec(b).map_err(Some)?;
        if !num::fits(&v, bits) {
            return Err(Some("value >= 2^BITS"));
        }
        Ok((v, n))
    }

    pub fn ref_dec(p: &Plan, offered: &[u8]) -> RefDec {
        if p.flavour == 3 {
            return container_dec(offered, |b| one(p.bits, b));
        }
        match one(p.bits, offered) {
            Ok((v, n)) => RefDec::Value(vec![v], Some(n)),
            Err(Some(e)) => RefDec::Invalid(e),
            Err(None) => RefDec::Unknown,
        }
    }

    /// M-PAD0: the same number in the next wider mode (non-minimal).
    pub fn pad0(_p: &Plan, seg: &[u8]) -> Option<Vec<u8>> {
        let (v, n, _) = compact_dec(seg).ok()?;
        if n != seg.len() {
            return None;
        }
        let x = num::to_u128(&v);
        Some(match seg[0] & 3 {
            0 => (((x? as u16) << 2) | 1).to_le_bytes().to_vec(),
            1 => (((x? as u32) << 2) | 2).to_le_bytes().to_vec(),
            2 => {
                let mut out = vec![3u8];
                out.extend_from_slice(&(x? as u32).to_le_bytes());
                out
            }
            _ => {
                let k = seg.len() - 1;
                if k >= 67 {
                    return None;
                }
                let mut out = vec![(((k + 1 - 4) << 2) | 3) as u8];
                out.extend_from_slice(&seg[1..]);
                out.push(0);
                out
            }
        })
    }

    pub fn encode<const B: usize, const L: usize>(ws: &mut WriteSeam, p: &Plan, vals: &[Num]) -> EncResult {
        let us: Vec<Uint<B, L>> = vals.iter().map(num::to_uint).collect();
        for (u, v) in us.iter().zip(vals) {
            let want = compact_enc(v);
            // the hint is used as a Vec capacity by `encode()`: it must not blow up and should not
            // be absurd (a wrapped subtraction shows up as a huge number in unchecked builds)
            let hint = CompactRefUint(u).size_hint();
            if hint > want.len() + 4096 {
                ws.ctx.violate("LEN", format!("SCALE compact size_hint() = {hint} for an encoding of {} bytes", want.len()));
            }
            if let Some(x) = num::to_u128(v) {
                let prim = Compact(x).encode();
                if prim != want {
                    ws.ctx.violate("HARNESS", "reference compact encoder disagrees with parity-scale-codec Compact<u128>");
                }
            }
        }
        match p.flavour {
            0 => CompactRefUint(&us[0]).encode_to(ws),
            1 => {
                let v = CompactRefUint(&us[0]).encode();
                ws.append(&v);
            }
            2 => {
                let v = CompactRefUint(&us[0]).using_encoded(<[u8]>::to_vec);
                ws.append(&v);
            }
            _ => {
                let cs: Vec<CompactRefUint<B, L>> = us.iter().map(CompactRefUint).collect();
                cs.encode_to(ws);
            }
        }
        Ok(())
    }

    pub fn decode<const B: usize, const L: usize>(rs: &mut ReadSeam, p: &Plan) -> DecResult {
        let pos0 = rs.pos;
        match p.flavour {
            0 => {
                let u = CompactUint::<B, L>::decode(&mut SimInput { rs }).map_err(|e| e.to_string())?.0;
                let n = rs.ctx.observe("SCALE compact decode", &u);
                Ok((vec![n], Some(rs.pos - pos0)))
            }
            1 => {
                rs.note_cut_for_slice();
                let s = rs.rest();
                let mut cur = s;
                let u = CompactUint::<B, L>::decode(&mut cur).map_err(|e| e.to_string())?.0;
                let used = s.len() - cur.len();
                rs.advance(used);
                let n = rs.ctx.observe("SCALE compact decode", &u);
                Ok((vec![n], Some(used)))
            }
            2 => {
                let u = {
                    let mut r = IoReader(&mut *rs);
                    CompactUint::<B, L>::decode(&mut r).map_err(|e| e.to_string())?.0
                };
                let n = rs.ctx.observe("SCALE compact decode", &u);
                Ok((vec![n], Some(rs.pos - pos0)))
            }
            _ => {
                let us = Vec::<CompactUint<B, L>>::decode(&mut SimInput { rs }).map_err(|e| e.to_string())?;
                let ns = us.iter().map(|u| rs.ctx.observe("SCALE compact Vec item", &u.0)).collect();
                Ok((ns, Some(rs.pos - pos0)))
            }
        }
    }
}
