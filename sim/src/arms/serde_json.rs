//! serde, human-readable side, through the real serde_json.
//! flavours: 0 `to_string` / `from_str`; 1 `to_writer(io seam)` / `from_reader(io seam)`;
//! 2 `Vec<Uint>` `to_writer` / `from_slice`; 3 `Vec<Uint>` / `from_reader`;
//! 4 newline-separated stream / `StreamDeserializer`; 5 `Bits` `to_string` / `from_str`;
//! 6 `to_value` / `from_value` (owned-string delivery).

use super::*;
use crate::num;
use crate::reftext::{self, TextDen};
use ruint::{Bits, Uint};

pub const FLAVOURS: u32 = 7;
pub const STRICT: bool = false;
pub use super::never_refuse as may_refuse;
pub use super::no as lossy;
pub use super::has_seam as seamless_flavour;
pub const SEAMLESS: bool = false;

pub fn supports(_bits: usize, _flavour: u32) -> bool {
    true
}
pub fn framing(p: &Plan) -> Framing {
    match p.flavour {
        2 | 3 => Framing::Container,
        4 => Framing::Stream,
        _ => Framing::Message,
    }
}
pub fn io_writer(p: &Plan) -> bool {
    matches!(p.flavour, 1 | 2 | 3 | 4)
}
pub fn writer_fallible(p: &Plan) -> bool {
    io_writer(p)
}
pub fn io_reader(p: &Plan) -> bool {
    matches!(p.flavour, 1 | 3)
}
pub use super::no as scale_input;

fn quoted(p: &Plan, v: &Num) -> String {
    if p.flavour == 5 {
        if p.bits == 0 {
            return "\"0x0\"".into();
        }
        return format!("\"0x{}\"", num::hex(&num::be_padded(v, num::nbytes(p.bits))));
    }
    let d = num::hex_digits(v);
    format!("\"0x{}\"", if d.is_empty() { "0" } else { &d })
}

pub fn ref_enc(p: &Plan, vals: &[Num]) -> Vec<u8> {
    match framing(p) {
        Framing::Container => {
            let items: Vec<String> = vals.iter().map(|v| quoted(p, v)).collect();
            format!("[{}]", items.join(",")).into_bytes()
        }
        Framing::Stream => vals.iter().map(|v| quoted(p, v) + "\n").collect::<String>().into_bytes(),
        Framing::Message => quoted(p, &vals[0]).into_bytes(),
    }
}

fn skip_ws(b: &[u8], mut i: usize) -> usize {
    while i < b.len() && matches!(b[i], b' ' | b'\t' | b'\n' | b'\r') {
        i += 1;
    }
    i
}

/// One JSON scalar as the HR visitor sees it. Err(None) = Unknown.
/// Ok((value, end offset)).
pub fn dec_scalar(bits: usize, b: &[u8], start: usize) -> Result<(Num, usize), Option<&'static str>> {
    let i = skip_ws(b, start);
    if i >= b.len() {
        return Err(Some(TRUNCATED));
    }
    match b[i] {
        b'"' => {
            let mut j = i + 1;
            loop {
                if j >= b.len() {
                    return Err(Some(TRUNCATED));
                }
                match b[j] {
                    b'"' => break,
                    b'\\' => return Err(None),
                    c if c < 0x20 => return Err(None),
                    _ => j += 1,
                }
            }
            let Ok(s) = std::str::from_utf8(&b[i + 1..j]) else { return Err(Some("invalid UTF-8 in string")) };
            match reftext::serde_str(bits, s) {
                TextDen::Value(v) => Ok((v, j + 1)),
                TextDen::Invalid(e) => Err(Some(e)),
                TextDen::Unknown => Err(None),
            }
        }
        b'0'..=b'9' => {
            let mut j = i;
            while j < b.len() && b[j].is_ascii_digit() {
                j += 1;
            }
            if j < b.len() && matches!(b[j], b'.' | b'e' | b'E') {
                return Err(None);
            }
            if b[i] == b'0' && j - i > 1 {
                return Err(None); // leading zero: serde_json's own syntax rule
            }
            let s = std::str::from_utf8(&b[i..j]).unwrap();
            let Ok(x) = s.parse::<u64>() else { return Err(None) };
            let v = num::from_u128(u128::from(x));
            if !num::fits(&v, bits) {
                return Err(Some("value >= 2^BITS"));
            }
            Ok((v, j))
        }
        b'-' => Err(None),
        _ => Err(Some("not a string or number")),
    }
}

pub fn ref_dec(p: &Plan, offered: &[u8]) -> RefDec {
    match framing(p) {
        Framing::Stream => match dec_scalar(p.bits, offered, 0) {
            // StreamDeserializer peeks past a number to find its end: a bare number at the very
            // end of the visible input is reported by serde_json as EOF-terminated, fine either way
            Ok((v, _end)) => RefDec::Value(vec![v], None),
            Err(Some(e)) => RefDec::Invalid(e),
            Err(None) => RefDec::Unknown,
        },
        Framing::Message => match dec_scalar(p.bits, offered, 0) {
            Ok((v, end)) => {
                if skip_ws(offered, end) != offered.len() {
                    return RefDec::Unknown; // trailing characters: serde_json's rule
                }
                RefDec::Value(vec![v], None)
            }
            Err(Some(e)) => RefDec::Invalid(e),
            Err(None) => RefDec::Unknown,
        },
        Framing::Container => {
            let mut i = skip_ws(offered, 0);
            if i >= offered.len() {
                return RefDec::Invalid(TRUNCATED);
            }
            if offered[i] != b'[' {
                return RefDec::Unknown;
            }
            i = skip_ws(offered, i + 1);
            let mut vals = vec![];
            if i < offered.len() && offered[i] == b']' {
                i += 1;
            } else {
                loop {
                    match dec_scalar(p.bits, offered, i) {
                        Ok((v, end)) => {
                            vals.push(v);
                            i = skip_ws(offered, end);
                        }
                        Err(Some(e)) => return RefDec::Invalid(e),
                        Err(None) => return RefDec::Unknown,
                    }
                    if i >= offered.len() {
                        return RefDec::Invalid(TRUNCATED);
                    }
                    match offered[i] {
                        b',' => i += 1,
                        b']' => {
                            i += 1;
                            break;
                        }
                        _ => return RefDec::Unknown,
                    }
                }
            }
            if skip_ws(offered, i) != offered.len() {
                return RefDec::Unknown;
            }
            RefDec::Value(vals, None)
        }
    }
}

/// M-PAD0: extra leading zero digits after the prefix (lenient decoder: same number).
pub fn pad0(p: &Plan, seg: &[u8]) -> Option<Vec<u8>> {
    if framing(p) == Framing::Container {
        return None;
    }
    let s = std::str::from_utf8(seg).ok()?;
    let rest = s.strip_prefix("\"0x")?;
    Some(format!("\"0x00{rest}").into_bytes())
}

pub fn encode<const B: usize, const L: usize>(ws: &mut WriteSeam, p: &Plan, vals: &[Num]) -> EncResult {
    let us: Vec<Uint<B, L>> = vals.iter().map(num::to_uint).collect();
    let e = |e: ::serde_json::Error| e.to_string();
    match p.flavour {
        0 => {
            let s = ::serde_json::to_string(&us[0]).map_err(e)?;
            ws.append(s.as_bytes());
        }
        1 => ::serde_json::to_writer(&mut *ws, &us[0]).map_err(e)?,
        2 | 3 => ::serde_json::to_writer(&mut *ws, &us).map_err(e)?,
        4 => {
            ::serde_json::to_writer(&mut *ws, &us[0]).map_err(e)?;
            std::io::Write::write_all(ws, b"\n").map_err(|e| e.to_string())?;
        }
        5 => {
            let s = ::serde_json::to_string(&Bits::from(us[0])).map_err(e)?;
            ws.append(s.as_bytes());
        }
        _ => {
            let v = ::serde_json::to_value(us[0]).map_err(e)?;
            ws.append(v.to_string().as_bytes());
        }
    }
    Ok(())
}

pub fn decode<const B: usize, const L: usize>(rs: &mut ReadSeam, p: &Plan) -> DecResult {
    let e = |e: ::serde_json::Error| e.to_string();
    match p.flavour {
        0 | 5 | 6 => {
            rs.note_cut_for_slice();
            let s = rs.rest();
            let u: Uint<B, L> = if p.flavour == 5 {
                let b: Bits<B, L> = ::serde_json::from_slice(s).map_err(e)?;
                b.into_inner()
            } else if p.flavour == 6 {
                let v: ::serde_json::Value = ::serde_json::from_slice(s).map_err(e)?;
                ::serde_json::from_value(v).map_err(e)?
            } else {
                let t = std::str::from_utf8(s).map_err(|e| e.to_string())?;
                ::serde_json::from_str(t).map_err(e)?
            };
            rs.advance(s.len());
            let n = rs.ctx.observe("serde_json decode", &u);
            Ok((vec![n], None))
        }
        1 => {
            let u: Uint<B, L> = ::serde_json::from_reader(&mut *rs).map_err(e)?;
            let n = rs.ctx.observe("serde_json from_reader", &u);
            Ok((vec![n], None))
        }
        2 => {
            rs.note_cut_for_slice();
            let s = rs.rest();
            let us: Vec<Uint<B, L>> = ::serde_json::from_slice(s).map_err(e)?;
            rs.advance(s.len());
            let ns = us.iter().map(|u| rs.ctx.observe("serde_json array item", u)).collect();
            Ok((ns, None))
        }
        3 => {
            let us: Vec<Uint<B, L>> = ::serde_json::from_reader(&mut *rs).map_err(e)?;
            let ns = us.iter().map(|u| rs.ctx.observe("serde_json array item", u)).collect();
            Ok((ns, None))
        }
        _ => {
            rs.note_cut_for_slice();
            let s = rs.rest();
            let mut it = ::serde_json::Deserializer::from_slice(s).into_iter::<Uint<B, L>>();
            let r = it.next().ok_or_else(|| "end of stream".to_string())?;
            let u = r.map_err(e)?;
            let mut used = it.byte_offset();
            // newline-delimited framing: the delimiter belongs to the record
            if s.get(used) == Some(&b'\n') {
                used += 1;
            }
            rs.advance(used);
            let n = rs.ctx.observe("serde_json stream item", &u);
            Ok((vec![n], Some(used)))
        }
    }
}
