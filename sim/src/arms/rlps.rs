//! alloy-rlp, fastrlp 0.3, fastrlp 0.4: strict RLP through `&mut dyn BufMut` / `&mut &[u8]`.
//! flavours: 0 `Vec<u8>` destination; 1 `BytesMut` destination; 2 fixed `&mut [u8]` of exactly
//! `length()` bytes (D-EXACT); 3 `Vec<Uint>` as an RLP list (container).

use super::refrlp;
use super::*;
use crate::num;

macro_rules! rlp_arm {
    ($modname:ident, $krate:ident, $label:literal) => {
        pub mod $modname {
            use super::*;
            use $krate::{Decodable, Encodable, MaxEncodedLenAssoc};
            use ruint::Uint;

            pub const FLAVOURS: u32 = 4;
            pub const STRICT: bool = true;
            pub const SEAMLESS: bool = false;

            pub fn supports(_bits: usize, _flavour: u32) -> bool {
                true
            }
            pub fn framing(p: &Plan) -> Framing {
                if p.flavour == 3 {
                    Framing::Container
                } else {
                    Framing::Stream
                }
            }
            pub use super::super::never_refuse as may_refuse;
            pub use super::super::no as lossy;
            pub use super::super::has_seam as seamless_flavour;
            pub use super::super::no as io_writer;
            pub use super::super::no as writer_fallible;
            pub use super::super::no as io_reader;
            pub use super::super::no as scale_input;

            pub fn ref_enc(p: &Plan, vals: &[Num]) -> Vec<u8> {
                let items: Vec<Vec<u8>> = vals.iter().map(refrlp::enc_uint).collect();
                if p.flavour == 3 {
                    refrlp::enc_list(&items)
                } else {
                    items.concat()
                }
            }

            pub fn ref_dec(p: &Plan, offered: &[u8]) -> RefDec {
                if p.flavour == 3 {
                    let it = match refrlp::parse(offered) {
                        Ok(i) => i,
                        Err(e) => return RefDec::Invalid(e),
                    };
                    if !it.list {
                        return RefDec::Invalid("string where a list is expected");
                    }
                    if !it.canonical {
                        return RefDec::Invalid("non-canonical header");
                    }
                    let body = &offered[it.payload_start..it.total()];
                    let mut pos = 0;
                    let mut vals = vec![];
                    while pos < body.len() {
                        match refrlp::dec_uint_strict(p.bits, &body[pos..]) {
                            Ok((v, n)) => {
                                vals.push(v);
                                pos += n;
                            }
                            // an item cut short by the end of the list payload is malformed, not torn
                            Err(e) if e == TRUNCATED => return RefDec::Invalid("item overruns list payload"),
                            Err(e) => return RefDec::Invalid(e),
                        }
                    }
                    return RefDec::Value(vals, Some(it.total()));
                }
                match refrlp::dec_uint_strict(p.bits, offered) {
                    Ok((v, n)) => RefDec::Value(vec![v], Some(n)),
                    Err(e) => RefDec::Invalid(e),
                }
            }

            /// M-PAD0: same number with one leading zero byte in the payload, header fixed up.
            pub fn pad0(_p: &Plan, seg: &[u8]) -> Option<Vec<u8>> {
                let it = refrlp::parse(seg).ok()?;
                if it.list || it.total() != seg.len() {
                    return None;
                }
                let mut payload = vec![0u8];
                payload.extend_from_slice(&seg[it.payload_start..]);
                let mut out = refrlp::header(payload.len(), false);
                out.extend(payload);
                Some(out)
            }

            pub fn encode<const B: usize, const L: usize>(ws: &mut WriteSeam, p: &Plan, vals: &[Num]) -> EncResult {
                let us: Vec<Uint<B, L>> = vals.iter().map(num::to_uint).collect();
                let mut len_ok = true;
                // the advertised maximum must cover the largest value of the type
                let max_len = refrlp::enc_uint(&num::max_value(B)).len();
                if <Uint<B, L> as MaxEncodedLenAssoc>::LEN < max_len {
                    ws.ctx.violate("LEN", format!(concat!($label, " MaxEncodedLenAssoc::LEN = {} < {} bytes needed for Uint<{}>::MAX"), <Uint<B, L> as MaxEncodedLenAssoc>::LEN, max_len, B));
                }
                for (u, v) in us.iter().zip(vals) {
                    let want = refrlp::enc_uint(v);
                    if u.length() != want.len() {
                        len_ok = false;
                        ws.ctx.violate("LEN", format!(concat!($label, " length() = {} but the canonical RLP of 0x{} has {} bytes (Uint<{}>)"), u.length(), num::hex(v), want.len(), B));
                    }
                    // the crate's own encoding of the equal primitive
                    if let Some(x) = num::to_u128(v) {
                        let mut prim = vec![];
                        x.encode(&mut prim);
                        if prim != want {
                            ws.ctx.violate("HARNESS", concat!("reference RLP encoder disagrees with ", $label, " u128"));
                        }
                    }
                }
                const MARK: [u8; 3] = [0xEE, 0xDD, 0xCC];
                match p.flavour {
                    0 => {
                        let mut buf = MARK.to_vec();
                        us[0].encode(&mut buf);
                        if buf[..3] != MARK {
                            ws.ctx.violate("ENC!=REF", "encode clobbered existing destination content");
                        }
                        ws.append(&buf[3..]);
                    }
                    1 => {
                        let mut buf = ::bytes::BytesMut::from(&MARK[..]);
                        us[0].encode(&mut buf);
                        if buf[..3] != MARK {
                            ws.ctx.violate("ENC!=REF", "encode clobbered existing destination content");
                        }
                        ws.append(&buf[3..]);
                    }
                    2 => {
                        if len_ok {
                            ws.ctx.fire("D-EXACT");
                            let n = us[0].length();
                            let mut store = vec![0xAAu8; n];
                            let left = {
                                let mut dst: &mut [u8] = &mut store[..];
                                us[0].encode(&mut dst);
                                dst.len()
                            };
                            if left != 0 {
                                ws.ctx.violate("LEN", format!(concat!($label, " encode left {} of the {} advertised bytes unwritten"), left, n));
                            }
                            ws.append(&store[..n - left]);
                        } else {
                            let mut buf = vec![];
                            us[0].encode(&mut buf);
                            ws.append(&buf);
                        }
                    }
                    _ => {
                        if us.length() != ref_enc(p, vals).len() {
                            ws.ctx.violate("LEN", format!(concat!($label, " Vec<Uint<{}>>::length() = {} but the list encoding has {} bytes"), B, us.length(), ref_enc(p, vals).len()));
                        }
                        let mut buf = vec![];
                        us.encode(&mut buf);
                        ws.append(&buf);
                    }
                }
                Ok(())
            }

            pub fn decode<const B: usize, const L: usize>(rs: &mut ReadSeam, p: &Plan) -> DecResult {
                rs.note_cut_for_slice();
                let s = rs.rest();
                let mut cur = s;
                if p.flavour == 3 {
                    let us = Vec::<Uint<B, L>>::decode(&mut cur).map_err(|e| format!("{e:?}"))?;
                    let used = s.len() - cur.len();
                    rs.advance(used);
                    let ns = us.iter().map(|u| rs.ctx.observe(concat!($label, " list item"), u)).collect();
                    return Ok((ns, Some(used)));
                }
                let u = Uint::<B, L>::decode(&mut cur).map_err(|e| format!("{e:?}"))?;
                let used = s.len() - cur.len();
                rs.advance(used);
                let n = rs.ctx.observe(concat!($label, " decode"), &u);
                Ok((vec![n], Some(used)))
            }
        }
    };
}

rlp_arm!(alloy, alloy_rlp, "alloy-rlp");
rlp_arm!(fast03, fastrlp_03, "fastrlp-0.3");
rlp_arm!(fast04, fastrlp_04, "fastrlp-0.4");
