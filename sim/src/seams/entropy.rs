//! Entropy stubs: `RngCore` for rand 0.8 and 0.9 over an explicit byte stream (read cyclically),
//! optionally failing (panicking with `EntropyFailure`) after a number of delivered bytes — the
//! way real `RngCore` implementations surface an OS entropy failure.

use crate::ctx::EntropyFailure;

pub struct Stream<'a> {
    pub data: &'a [u8],
    pub pos: usize,
    pub delivered: usize,
    pub fail_at: Option<usize>,
    pub calls: u64,
}

impl<'a> Stream<'a> {
    pub fn new(data: &'a [u8], fail_at: Option<usize>) -> Self {
        Self { data, pos: 0, delivered: 0, fail_at, calls: 0 }
    }

    fn next_byte(&mut self) -> u8 {
        if let Some(k) = self.fail_at {
            if self.delivered >= k {
                std::panic::panic_any(EntropyFailure);
            }
        }
        let b = if self.data.is_empty() { 0 } else { self.data[self.pos % self.data.len()] };
        self.pos += 1;
        self.delivered += 1;
        b
    }

    pub fn fill(&mut self, dest: &mut [u8]) {
        self.calls += 1;
        // byte by byte, so that a failure leaves a partially overwritten destination behind
        for d in dest.iter_mut() {
            *d = self.next_byte();
        }
    }

    pub fn u32(&mut self) -> u32 {
        let mut b = [0u8; 4];
        self.fill(&mut b);
        u32::from_le_bytes(b)
    }

    pub fn u64(&mut self) -> u64 {
        let mut b = [0u8; 8];
        self.fill(&mut b);
        u64::from_le_bytes(b)
    }
}

pub struct SimRng08<'a>(pub Stream<'a>);

impl rand_08::RngCore for SimRng08<'_> {
    fn next_u32(&mut self) -> u32 {
        self.0.u32()
    }
    fn next_u64(&mut self) -> u64 {
        self.0.u64()
    }
    fn fill_bytes(&mut self, dest: &mut [u8]) {
        self.0.fill(dest);
    }
    fn try_fill_bytes(&mut self, dest: &mut [u8]) -> Result<(), rand_08::Error> {
        self.0.fill(dest);
        Ok(())
    }
}

pub struct SimRng09<'a>(pub Stream<'a>);

impl rand_09::RngCore for SimRng09<'_> {
    fn next_u32(&mut self) -> u32 {
        self.0.u32()
    }
    fn next_u64(&mut self) -> u64 {
        self.0.u64()
    }
    fn fill_bytes(&mut self, dest: &mut [u8]) {
        self.0.fill(dest);
    }
}
