//! rlp 0.5 (`RlpStream` / `Rlp`): lenient decoder by design (leading zeros tolerated for `Uint`).
//! flavours: 0 `Uint` single item, 1 `Uint` list, 2 `Bits` single item, 3 `Bits` list.

use super::refrlp;
use super::*;
use crate::num::{self, nbytes};
use ::rlp::{Rlp, RlpStream};
use ruint::{Bits, Uint};

pub const FLAVOURS: u32 = 4;
pub const STRICT: bool = false;
pub use super::never_refuse as may_refuse;
pub use super::no as lossy;
pub use super::has_seam as seamless_flavour;
pub const SEAMLESS: bool = false;

pub fn supports(_bits: usize, _flavour: u32) -> bool {
    true
}
pub fn framing(p: &Plan) -> Framing {
    if p.flavour % 2 == 1 {
        Framing::Container
    } else {
        Framing::Message
    }
}
pub use super::no as io_writer;
pub use super::no as writer_fallible;
pub use super::no as io_reader;
pub use super::no as scale_input;

fn is_bits(p: &Plan) -> bool {
    p.flavour >= 2
}

fn enc_item(p: &Plan, v: &Num) -> Vec<u8> {
    if is_bits(p) {
        refrlp::enc_string(&num::be_padded(v, nbytes(p.bits)))
    } else {
        refrlp::enc_uint(v)
    }
}

pub fn ref_enc(p: &Plan, vals: &[Num]) -> Vec<u8> {
    let items: Vec<Vec<u8>> = vals.iter().map(|v| enc_item(p, v)).collect();
    if framing(p) == Framing::Container {
        refrlp::enc_list(&items)
    } else {
        items.concat()
    }
}

/// Err(None) = Unknown.
fn dec_item(p: &Plan, b: &[u8]) -> Result<(Num, usize), Option<&'static str>> {
    let it = refrlp::parse(b).map_err(Some)?;
    if it.list {
        return Err(Some("list where data is expected"));
    }
    if !it.canonical {
        return Err(None);
    }
    let payload = &b[it.payload_start..it.total()];
    let nb = nbytes(p.bits);
    if is_bits(p) && payload.len() != nb {
        return Err(Some("Bits payload length != BYTES"));
    }
    if payload.len() > nb {
        return Err(Some("payload longer than BYTES"));
    }
    let v = num::trim_be(payload);
    if !num::fits(&v, p.bits) {
        return Err(Some("value >= 2^BITS"));
    }
    Ok((v, it.total()))
}

pub fn ref_dec(p: &Plan, offered: &[u8]) -> RefDec {
    if framing(p) == Framing::Container {
        let it = match refrlp::parse(offered) {
            Ok(i) => i,
            Err(e) => return RefDec::Invalid(e),
        };
        if !it.list || !it.canonical || it.total() != offered.len() {
            // the harness's own framing check (payload_info / is_list / exact length) rejects or the
            // crate's leniency decides: not ruint's call
            return RefDec::Unknown;
        }
        let body = &offered[it.payload_start..it.total()];
        // first pass: structure (any malformed inner item => the crate silently shortens the list)
        let mut pos = 0;
        let mut spans = vec![];
        while pos < body.len() {
            match refrlp::parse(&body[pos..]) {
                // a non-canonical inner header makes rlp 0.5's iterator stop silently
                Ok(i) if !i.canonical => return RefDec::Unknown,
                Ok(i) => {
                    spans.push((pos, i.total()));
                    pos += i.total();
                }
                Err(_) => return RefDec::Unknown,
            }
        }
        let mut vals = vec![];
        for (s, n) in spans {
            match dec_item(p, &body[s..s + n]) {
                Ok((v, _)) => vals.push(v),
                Err(Some(e)) => return RefDec::Invalid(e),
                Err(None) => return RefDec::Unknown,
            }
        }
        return RefDec::Value(vals, None);
    }
    match dec_item(p, offered) {
        Ok((v, _)) => RefDec::Value(vec![v], None),
        Err(Some(e)) => RefDec::Invalid(e),
        Err(None) => RefDec::Unknown,
    }
}

pub fn pad0(p: &Plan, seg: &[u8]) -> Option<Vec<u8>> {
    if framing(p) == Framing::Container {
        return None;
    }
    let it = refrlp::parse(seg).ok()?;
    if it.list || it.total() != seg.len() {
        return None;
    }
    let mut payload = vec![0u8];
    payload.extend_from_slice(&seg[it.payload_start..]);
    let mut out = refrlp::header(payload.len(), false);
    out.extend(payload);
    Some(out)
}

pub fn encode<const B: usize, const L: usize>(ws: &mut WriteSeam, p: &Plan, vals: &[Num]) -> EncResult {
    let us: Vec<Uint<B, L>> = vals.iter().map(num::to_uint).collect();
    for v in vals {
        if let Some(x) = num::to_u128(v) {
            if ::rlp::encode(&x).to_vec() != refrlp::enc_uint(v) {
                ws.ctx.violate("HARNESS", "reference RLP encoder disagrees with rlp 0.5 u128");
            }
        }
    }
    let out = match p.flavour {
        0 => ::rlp::encode(&us[0]).to_vec(),
        1 => {
            let mut s = RlpStream::new_list(us.len());
            for u in &us {
                s.append(u);
            }
            s.out().to_vec()
        }
        2 => ::rlp::encode(&Bits::from(us[0])).to_vec(),
        _ => {
            let mut s = RlpStream::new_list(us.len());
            for u in &us {
                s.append(&Bits::from(*u));
            }
            s.out().to_vec()
        }
    };
    ws.append(&out);
    Ok(())
}

pub fn decode<const B: usize, const L: usize>(rs: &mut ReadSeam, p: &Plan) -> DecResult {
    rs.note_cut_for_slice();
    let s = rs.rest();
    let out = match p.flavour {
        0 => {
            let u: Uint<B, L> = ::rlp::decode(s).map_err(|e| e.to_string())?;
            vec![rs.ctx.observe("rlp decode", &u)]
        }
        2 => {
            let b: Bits<B, L> = ::rlp::decode(s).map_err(|e| e.to_string())?;
            vec![rs.ctx.observe("rlp Bits decode", b.as_uint())]
        }
        f => {
            // framing checks a careful user performs before trusting rlp 0.5's lenient list API
            let r = Rlp::new(s);
            let pi = r.payload_info().map_err(|e| e.to_string())?;
            if !r.is_list() || pi.total() != s.len() {
                return Err("harness: not exactly one list".into());
            }
            let n = r.item_count().map_err(|e| e.to_string())?;
            let mut out = vec![];
            for i in 0..n {
                if f == 1 {
                    let u: Uint<B, L> = r.val_at(i).map_err(|e| e.to_string())?;
                    out.push(rs.ctx.observe("rlp list item", &u));
                } else {
                    let b: Bits<B, L> = r.val_at(i).map_err(|e| e.to_string())?;
                    out.push(rs.ctx.observe("rlp Bits list item", b.as_uint()));
                }
            }
            out
        }
    };
    rs.advance(s.len());
    Ok((out, None))
}
