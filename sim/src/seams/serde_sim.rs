//! Data-model level serde stubs: a `Serializer` that captures what ruint hands it (or fails), and
//! a `Deserializer` that delivers exactly one data-model item in a form the simulator chooses,
//! ignoring the type hint the way self-describing formats do.

use serde::de::{self, Visitor};
use serde::ser::{self, Impossible};
use std::fmt;

#[derive(Debug, Clone, PartialEq, Eq)]
pub struct SimSerdeError(pub String);

impl fmt::Display for SimSerdeError {
    fn fmt(&self, f: &mut fmt::Formatter<'_>) -> fmt::Result {
        f.write_str(&self.0)
    }
}
impl std::error::Error for SimSerdeError {}
impl ser::Error for SimSerdeError {
    fn custom<T: fmt::Display>(msg: T) -> Self {
        Self(msg.to_string())
    }
}
impl de::Error for SimSerdeError {
    fn custom<T: fmt::Display>(msg: T) -> Self {
        Self(msg.to_string())
    }
}

#[derive(Debug, Clone, PartialEq, Eq)]
pub enum Captured {
    Str(String),
    Bytes(Vec<u8>),
    Other(&'static str),
}

pub struct SimSerializer {
    pub human_readable: bool,
    /// S-ERR on the write side: the format's own error
    pub fail: bool,
}

macro_rules! other {
    ($($name:ident($t:ty)),*) => { $(
        fn $name(self, _v: $t) -> Result<Captured, SimSerdeError> { Ok(Captured::Other(stringify!($name))) }
    )* };
}

impl ser::Serializer for SimSerializer {
    type Ok = Captured;
    type Error = SimSerdeError;
    type SerializeSeq = Impossible<Captured, SimSerdeError>;
    type SerializeTuple = Impossible<Captured, SimSerdeError>;
    type SerializeTupleStruct = Impossible<Captured, SimSerdeError>;
    type SerializeTupleVariant = Impossible<Captured, SimSerdeError>;
    type SerializeMap = Impossible<Captured, SimSerdeError>;
    type SerializeStruct = Impossible<Captured, SimSerdeError>;
    type SerializeStructVariant = Impossible<Captured, SimSerdeError>;

    fn is_human_readable(&self) -> bool {
        self.human_readable
    }
    fn serialize_str(self, v: &str) -> Result<Captured, SimSerdeError> {
        if self.fail {
            return Err(SimSerdeError("sim: serializer failed".into()));
        }
        Ok(Captured::Str(v.to_string()))
    }
    fn serialize_bytes(self, v: &[u8]) -> Result<Captured, SimSerdeError> {
        if self.fail {
            return Err(SimSerdeError("sim: serializer failed".into()));
        }
        Ok(Captured::Bytes(v.to_vec()))
    }
    other!(serialize_bool(bool), serialize_i8(i8), serialize_i16(i16), serialize_i32(i32), serialize_i64(i64),
        serialize_u8(u8), serialize_u16(u16), serialize_u32(u32), serialize_u64(u64), serialize_f32(f32),
        serialize_f64(f64), serialize_char(char));
    fn serialize_none(self) -> Result<Captured, SimSerdeError> {
        Ok(Captured::Other("none"))
    }
    fn serialize_some<T: ?Sized + ser::Serialize>(self, _: &T) -> Result<Captured, SimSerdeError> {
        Ok(Captured::Other("some"))
    }
    fn serialize_unit(self) -> Result<Captured, SimSerdeError> {
        Ok(Captured::Other("unit"))
    }
    fn serialize_unit_struct(self, _: &'static str) -> Result<Captured, SimSerdeError> {
        Ok(Captured::Other("unit_struct"))
    }
    fn serialize_unit_variant(self, _: &'static str, _: u32, _: &'static str) -> Result<Captured, SimSerdeError> {
        Ok(Captured::Other("unit_variant"))
    }
    fn serialize_newtype_struct<T: ?Sized + ser::Serialize>(self, _: &'static str, _: &T) -> Result<Captured, SimSerdeError> {
        Ok(Captured::Other("newtype_struct"))
    }
    fn serialize_newtype_variant<T: ?Sized + ser::Serialize>(self, _: &'static str, _: u32, _: &'static str, _: &T) -> Result<Captured, SimSerdeError> {
        Ok(Captured::Other("newtype_variant"))
    }
    fn serialize_seq(self, _: Option<usize>) -> Result<Self::SerializeSeq, SimSerdeError> {
        Err(SimSerdeError("seq unsupported".into()))
    }
    fn serialize_tuple(self, _: usize) -> Result<Self::SerializeTuple, SimSerdeError> {
        Err(SimSerdeError("tuple unsupported".into()))
    }
    fn serialize_tuple_struct(self, _: &'static str, _: usize) -> Result<Self::SerializeTupleStruct, SimSerdeError> {
        Err(SimSerdeError("tuple_struct unsupported".into()))
    }
    fn serialize_tuple_variant(self, _: &'static str, _: u32, _: &'static str, _: usize) -> Result<Self::SerializeTupleVariant, SimSerdeError> {
        Err(SimSerdeError("tuple_variant unsupported".into()))
    }
    fn serialize_map(self, _: Option<usize>) -> Result<Self::SerializeMap, SimSerdeError> {
        Err(SimSerdeError("map unsupported".into()))
    }
    fn serialize_struct(self, _: &'static str, _: usize) -> Result<Self::SerializeStruct, SimSerdeError> {
        Err(SimSerdeError("struct unsupported".into()))
    }
    fn serialize_struct_variant(self, _: &'static str, _: u32, _: &'static str, _: usize) -> Result<Self::SerializeStructVariant, SimSerdeError> {
        Err(SimSerdeError("struct_variant unsupported".into()))
    }
}

/// What the deserializer delivers to the visitor.
#[derive(Debug, Clone, PartialEq)]
pub enum Item<'de> {
    Str(&'de str),
    OwnedStr(&'de str),
    BorrowedStr(&'de str),
    Bytes(&'de [u8]),
    ByteBuf(&'de [u8]),
    BorrowedBytes(&'de [u8]),
    U64(u64),
    U128(u128),
    I64(i64),
    I128(i128),
    F64(f64),
    Bool(bool),
    Char(char),
    Unit,
    None,
    /// the bytes as a sequence of u8 elements (what some formats do for byte arrays)
    Seq(&'de [u8]),
    /// S-ERR: the format's own error
    Fail,
}

pub struct SimDeserializer<'de> {
    pub human_readable: bool,
    pub item: Item<'de>,
}

struct ByteSeq<'de>(std::slice::Iter<'de, u8>);
impl<'de> de::SeqAccess<'de> for ByteSeq<'de> {
    type Error = SimSerdeError;
    fn next_element_seed<T: de::DeserializeSeed<'de>>(&mut self, seed: T) -> Result<Option<T::Value>, SimSerdeError> {
        match self.0.next() {
            Some(&b) => seed.deserialize(de::value::U8Deserializer::new(b)).map(Some),
            None => Ok(None),
        }
    }
}

impl<'de> de::Deserializer<'de> for SimDeserializer<'de> {
    type Error = SimSerdeError;

    fn is_human_readable(&self) -> bool {
        self.human_readable
    }

    fn deserialize_any<V: Visitor<'de>>(self, v: V) -> Result<V::Value, SimSerdeError> {
        match self.item {
            Item::Str(s) => {
                // a transient copy: the visitor must not rely on the 'de lifetime
                let tmp = s.to_string();
                v.visit_str(&tmp)
            }
            Item::OwnedStr(s) => v.visit_string(s.to_string()),
            Item::BorrowedStr(s) => v.visit_borrowed_str(s),
            Item::Bytes(b) => {
                let tmp = b.to_vec();
                v.visit_bytes(&tmp)
            }
            Item::ByteBuf(b) => v.visit_byte_buf(b.to_vec()),
            Item::BorrowedBytes(b) => v.visit_borrowed_bytes(b),
            Item::U64(x) => v.visit_u64(x),
            Item::U128(x) => v.visit_u128(x),
            Item::I64(x) => v.visit_i64(x),
            Item::I128(x) => v.visit_i128(x),
            Item::F64(x) => v.visit_f64(x),
            Item::Bool(x) => v.visit_bool(x),
            Item::Char(x) => v.visit_char(x),
            Item::Unit => v.visit_unit(),
            Item::None => v.visit_none(),
            Item::Seq(b) => v.visit_seq(ByteSeq(b.iter())),
            Item::Fail => Err(SimSerdeError("sim: deserializer failed".into())),
        }
    }

    serde::forward_to_deserialize_any! {
        bool i8 i16 i32 i64 i128 u8 u16 u32 u64 u128 f32 f64 char str string bytes byte_buf option
        unit unit_struct newtype_struct seq tuple tuple_struct map struct enum identifier ignored_any
    }
}
