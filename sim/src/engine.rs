//! Executes one `Plan`: producer -> medium (+faults) -> consumer for the `pipeline` arm; parser
//! runs for the `text` arm; generator runs for the `entropy` arm. All oracles live here.

use crate::arms::{self, ArmInfo, Framing, RefDec, TRUNCATED};
use crate::ctx::{guard, Ctx, Guarded, Violation};
use crate::for_width;
use crate::num::{self, nbytes, Num};
use crate::plan::{Config, MFault, Plan};
use crate::reftext::{self, TextDen};
use crate::seams::io::{ReadSeam, WriteSeam};
use std::collections::BTreeMap;

pub struct RunReport {
    pub violations: Vec<Violation>,
    pub digest: u64,
    pub seam_events: u64,
    pub fired: BTreeMap<&'static str, u32>,
    pub probes: BTreeMap<&'static str, u32>,
    pub outcome: String,
    pub signature: u64,
    pub nontrivial: bool,
    pub trace: Option<Vec<String>>,
}

/// Run and also return the medium as the consumer saw it (used by the minimiser).
pub fn run_plan_collect(plan: &Plan) -> (RunReport, Vec<(Vec<u8>, bool, bool)>) {
    let mut ctx = Ctx::new(false);
    ctx.collect_medium = true;
    let rep = run_plan_ctx(plan, &mut ctx);
    (rep, std::mem::take(&mut ctx.final_medium))
}

pub fn run_plan(plan: &Plan, trace: bool) -> RunReport {
    let mut ctx = Ctx::new(trace);
    run_plan_ctx(plan, &mut ctx)
}

fn run_plan_ctx(plan: &Plan, ctx_in: &mut Ctx) -> RunReport {
    // containment self-test only (bin/selftest): never present in generated plans otherwise
    if plan.notes.iter().any(|n| n == "SELFTEST-ABORT") {
        std::process::abort();
    }
    if plan.notes.iter().any(|n| n == "SELFTEST-HANG") {
        loop {
            std::thread::sleep(std::time::Duration::from_secs(1));
        }
    }
    let mut ctx = std::mem::take(ctx_in);
    ctx.event(&plan.arm, plan.bits as u64, u64::from(plan.flavour));
    ctx.log.str(&plan.codec);
    match plan.arm.as_str() {
        "pipeline" => match arms::arm_by_name(&plan.codec) {
            Some(arm) => for_width!(plan.bits, run_pipeline(&mut ctx, plan, arm)),
            None => ctx.violate("HARNESS", format!("unknown codec arm {}", plan.codec)),
        },
        "text" => for_width!(plan.bits, run_text(&mut ctx, plan)),
        "entropy" => for_width!(plan.bits, run_entropy(&mut ctx, plan)),
        "history" => for_width!(plan.bits, run_history(&mut ctx, plan)),
        other => ctx.violate("HARNESS", format!("unknown arm {other}")),
    }
    let (signature, nontrivial) = signature(plan, &ctx);
    ctx_in.final_medium = std::mem::take(&mut ctx.final_medium);
    RunReport {
        digest: ctx.log.finish(),
        violations: ctx.violations,
        seam_events: ctx.seam_events,
        fired: ctx.fired,
        probes: ctx.probes,
        outcome: ctx.outcome,
        signature,
        nontrivial,
        trace: ctx.trace,
    }
}

pub fn value_class(bits: usize, v: &Num) -> u8 {
    let bl = num::bit_len(v);
    if bl == 0 {
        0
    } else if bl == 1 {
        1
    } else if bl <= 7 {
        2
    } else if bl <= 8 {
        3
    } else if bl <= 16 {
        4
    } else if bl <= 32 {
        5
    } else if bl <= 64 {
        6
    } else if *v == num::max_value(bits) {
        10
    } else if bl == bits {
        9
    } else if bl <= bits / 2 {
        7
    } else {
        8
    }
}

/// Coverage signature (DESIGN §2.9): what kind of situation this run exercised.
fn signature(plan: &Plan, ctx: &Ctx) -> (u64, bool) {
    let mut d = crate::prng::Digest::default();
    d.str(&plan.arm);
    d.str(&plan.codec);
    d.u8(u8::from(cfg!(feature = "r09"))); // the two feature configurations are different systems
    d.u64(u64::from(plan.flavour));
    d.u64(plan.bits as u64);
    d.u8(plan.records.first().map_or(255, |v| value_class(plan.bits, v)));
    d.u64(plan.records.first().map_or(0, |v| v.len() as u64)); // byte length: selects header forms
    d.u64(plan.records.len() as u64);
    d.u8(u8::from(!plan.write.chunks.is_empty()) | u8::from(!plan.read.chunks.is_empty()) << 1 | u8::from(!plan.write.prefill.is_empty()) << 2);
    d.u8(plan.config as u8);
    for k in ctx.fired.keys() {
        d.str(k);
    }
    for n in &plan.notes {
        d.str(n);
    }
    // damage locus of the first medium fault, relative to the first record's length
    if let Some(f) = plan.medium.first() {
        let at = match f {
            MFault::Trunc { at } | MFault::Flip { at, .. } | MFault::Sub { at, .. } | MFault::Zero { at, .. } | MFault::Dup { at, .. } | MFault::Field { at, .. } => *at,
            _ => 0,
        };
        d.u8(match at {
            0 => 0,
            1..=2 => 1,
            3..=8 => 2,
            _ => 3,
        });
    }
    if plan.arm == "history" {
        // the set of operations applied (order-insensitive) is the state measure of this arm
        let mut ops: Vec<u64> = plan.aux.chunks(4).map(|c| c[0] % crate::history::NOPS).collect();
        ops.sort_unstable();
        ops.dedup();
        for o in ops {
            d.u64(o);
        }
    } else if plan.arm == "pipeline" {
        d.u64(plan.aux(0));
        d.u64(plan.aux(1));
    } else {
        d.u64(plan.aux(0));
    }
    d.str(&ctx.outcome);
    let nontrivial = !ctx.fired.is_empty() || !plan.notes.is_empty() || plan.records.iter().any(|v| !v.is_empty()) || !plan.text.is_empty();
    (d.finish(), nontrivial)
}

struct Seg {
    bytes: Vec<u8>,
    acked: bool,
    damaged: bool,
    /// lost entirely (truncation at or before its first byte)
    dropped: bool,
    expect: Vec<Num>,
    lossy: bool,
}

fn short(b: &[u8]) -> String {
    let h = num::hex(b);
    format!("⟦0x{}/{}B⟧", &h[..h.len().min(80)], b.len())
}

fn vals_str(v: &[Num]) -> String {
    let items: Vec<String> = v.iter().take(4).map(|n| format!("0x{}", num::hex(n))).collect();
    format!("⟦{}{}⟧", items.join(","), if v.len() > 4 { ",.." } else { "" })
}

fn run_pipeline<const B: usize, const L: usize>(ctx: &mut Ctx, plan: &Plan, arm: &ArmInfo) {
    if !(arm.supports)(B, plan.flavour) || plan.flavour >= arm.flavours {
        ctx.violate("HARNESS", format!("{} does not support bits={B} flavour={}", arm.name, plan.flavour));
        return;
    }
    for v in &plan.records {
        if !num::fits(v, B) || v.first() == Some(&0) {
            ctx.violate("HARNESS", "record does not fit the width");
            return;
        }
    }
    let framing = (arm.framing)(plan);
    let nb = nbytes(B);
    let ops: Vec<Vec<Num>> = match framing {
        Framing::Container => vec![plan.records.clone()],
        _ => plan.records.iter().map(|v| vec![v.clone()]).collect(),
    };
    let lossy = (arm.lossy)(plan);
    let benign_label = plan.config == Config::Benign;
    // reader-side destructive knobs touch every record: nothing counts as "undamaged" then
    let reader_faulty = plan.read.alloc_budget.is_some()
        || plan.read.remaining_len == 3
        || (arm.name == "serde-sim" && (plan.aux(0) == 1 || plan.aux(2) != 0))
        || (arm.name == "postgres" && plan.aux(0) != plan.aux(1))
        || (arm.name == "convert" && plan.flavour == 1 && plan.aux(0) == 1);

    // ---------------------------------------------------------------- producer
    let mut segs: Vec<Seg> = vec![];
    let mut abort = false;
    {
        let mut ws = WriteSeam::new(ctx, &plan.write);
        for (i, op) in ops.iter().enumerate() {
            let start = ws.dest.len();
            let refb = (arm.ref_enc)(plan, op);
            let refuse = (arm.may_refuse)(plan, op);
            ws.begin_op(4 * (nb * op.len() + refb.len()) + 64);
            ws.ctx.event("ENC", i as u64, op.len() as u64);
            let r = guard(|| arms::encode_op::<B, L>(arm.id, &mut ws, plan, op));
            let seg = ws.dest[start..].to_vec();
            ws.ctx.event_bytes("SEG", &seg);
            match r {
                Guarded::Ok(Ok(())) => {
                    if ws.hard_failed {
                        ws.ctx.violate("LOST-WRITE", format!("{}: encoder reported success although the writer failed after {} bytes", arm.name, seg.len()));
                        segs.push(Seg { bytes: seg, acked: false, damaged: true, dropped: false, expect: op.clone(), lossy });
                        break;
                    }
                    if !refuse && !lossy && seg != refb {
                        let class = if benign_label && !ws.ctx.fired.is_empty() && seg.len() != refb.len() { "MASKED-FAULT" } else { "ENC!=REF" };
                        ws.ctx.violate(class, format!("{} Uint<{B}> {}: wrote {} but the reference encoding is {}", arm.name, vals_str(op), short(&seg), short(&refb)));
                    }
                    segs.push(Seg { bytes: seg, acked: true, damaged: false, dropped: false, expect: op.clone(), lossy });
                }
                Guarded::Ok(Err(e)) => {
                    if ws.hard_failed {
                        if !refuse && !lossy && !refb.starts_with(&seg) {
                            ws.ctx.violate("ENC!=REF", format!("{}: bytes written before the write error are not a prefix of the reference encoding: {}", arm.name, short(&seg)));
                        }
                        ws.ctx.probe("write-error-surfaced");
                        segs.push(Seg { bytes: seg, acked: false, damaged: true, dropped: false, expect: op.clone(), lossy });
                        break;
                    } else if refuse {
                        ws.ctx.probe("encode-refused");
                        ws.dest.truncate(start);
                    } else {
                        ws.ctx.violate("ENC-FAIL", format!("{} Uint<{B}> {}: encoding failed without any injected fault || {e}", arm.name, vals_str(op)));
                        abort = true;
                        break;
                    }
                }
                Guarded::Panic(msg) => {
                    ws.ctx.violate("ENC-PANIC", format!("{} encode Uint<{B}>: {msg}", arm.name));
                    abort = true;
                    break;
                }
                Guarded::Steps(n) => {
                    ws.ctx.violate("ENC-STEPS", format!("{} encode Uint<{B}>: more than {n} seam calls", arm.name));
                    abort = true;
                    break;
                }
                Guarded::EntropyFailed => unreachable!(),
            }
        }
        if ws.dest.len() < plan.write.prefill.len() || ws.dest[..plan.write.prefill.len()] != plan.write.prefill[..] {
            ws.ctx.violate("ENC!=REF", "pre-existing destination content was clobbered");
        }
    }
    if abort || ctx.violations.iter().any(|v| v.class == "HARNESS") {
        ctx.outcome = "encode-violation".into();
        return;
    }

    // ---------------------------------------------------------------- medium
    for f in &plan.medium {
        apply_fault(ctx, plan, arm, framing, &mut segs, f);
    }

    if ctx.collect_medium {
        ctx.final_medium = segs.iter().map(|s| (s.bytes.clone(), s.damaged, s.dropped)).collect();
    }

    // ---------------------------------------------------------------- consumer
    let mut outcomes = String::new();
    match framing {
        Framing::Stream => {
            let mut medium = vec![];
            let mut starts = vec![];
            for s in &segs {
                starts.push(medium.len());
                if !s.dropped {
                    medium.extend_from_slice(&s.bytes);
                }
            }
            let n_ops = segs.len(); // a foreign tail (M-TAIL) is a segment of its own here
            let mut rs = ReadSeam::new(ctx, &plan.read, &medium, 0);
            let mut all_clean = true;
            for j in 0..n_ops {
                let seg = segs.get(j);
                let clean = all_clean
                    && !reader_faulty
                    && seg.map_or(false, |s| s.acked && !s.damaged && !s.dropped)
                    && rs.pos == starts.get(j).copied().unwrap_or(usize::MAX)
                    && seg.map_or(false, |s| rs.pos + s.bytes.len() <= rs.limit);
                all_clean = clean;
                let budget = 4 * (nb + rs.rest().len().min(nb * 2 + 64)) + 64;
                let o = decode_and_judge::<B, L>(&mut rs, plan, arm, j, if clean { seg } else { None }, budget);
                outcomes.push(o);
                if o != 'k' && o != 'K' {
                    break; // after Err the cursor is unspecified
                }
            }
        }
        Framing::Message | Framing::Container => {
            let mut base = 0;
            for (j, s) in segs.iter().enumerate() {
                if s.dropped {
                    outcomes.push('-');
                    continue;
                }
                let mut rs = ReadSeam::new(ctx, &plan.read, &s.bytes, base);
                base += s.bytes.len();
                let cut_inside = rs.limit < s.bytes.len();
                let clean = s.acked && !s.damaged && !cut_inside && !reader_faulty;
                let budget = 4 * (nb * s.expect.len().max(1) + s.bytes.len()) + 64;
                let o = decode_and_judge::<B, L>(&mut rs, plan, arm, j, if clean { Some(s) } else { None }, budget);
                outcomes.push(o);
            }
        }
    }
    ctx.outcome = outcomes;
}

/// One decode operation + verdict. Returns an outcome letter: k = Ok on clean record, K = Ok on
/// damaged input (judged by RefDec), e = Err on damaged input, E = Err on clean record
/// (violation), p = panic, s = steps.
fn decode_and_judge<const B: usize, const L: usize>(
    rs: &mut ReadSeam,
    plan: &Plan,
    arm: &ArmInfo,
    j: usize,
    clean: Option<&Seg>,
    budget: usize,
) -> char {
    let offered: Vec<u8> = rs.rest().to_vec();
    path_probes::<B>(rs.ctx, plan, arm, &offered);
    rs.begin_op(budget);
    rs.ctx.event("DEC", j as u64, offered.len() as u64);
    let pos0 = rs.pos;
    let r = guard(|| arms::decode_op::<B, L>(arm.id, rs, plan));
    let benign_label = plan.config == Config::Benign && !rs.ctx.fired.is_empty();
    match r {
        Guarded::Panic(msg) => {
            rs.ctx.violate("PANIC", format!("{} decode Uint<{B}> of {}: {msg}", arm.name, short(&offered)));
            'p'
        }
        Guarded::Steps(n) => {
            rs.ctx.violate("STEPS", format!("{} decode Uint<{B}>: more than {n} seam calls for {} offered bytes", arm.name, offered.len()));
            's'
        }
        Guarded::EntropyFailed => unreachable!(),
        Guarded::Ok(Err(e)) => {
            rs.ctx.event("DEC-ERR", j as u64, 0);
            if let Some(seg) = clean.filter(|s| !s.lossy) {
                let class = if benign_label { "MASKED-FAULT" } else if plan.config == Config::Destructive { "PREFIX" } else { "ROUNDTRIP" };
                rs.ctx.violate(class, format!("{} Uint<{B}>: undamaged record {} ({}) failed to decode || {e}", arm.name, vals_str(&seg.expect), short(&seg.bytes)));
                'E'
            } else {
                'e'
            }
        }
        Guarded::Ok(Ok((vals, consumed))) => {
            rs.ctx.event("DEC-OK", j as u64, vals.len() as u64);
            for v in &vals {
                rs.ctx.log.bytes(v);
            }
            if let Some(seg) = clean {
                let class = if benign_label { "MASKED-FAULT" } else if plan.config == Config::Destructive { "PREFIX" } else { "ROUNDTRIP" };
                if !seg.lossy && vals != seg.expect {
                    rs.ctx.violate(class, format!("{} Uint<{B}>: wrote {} as {}, read back {}", arm.name, vals_str(&seg.expect), short(&seg.bytes), vals_str(&vals)));
                }
                if let Some(c) = consumed {
                    if c != seg.bytes.len() || rs.pos != pos0 + seg.bytes.len() {
                        rs.ctx.violate(class, format!("{} Uint<{B}>: record of {} bytes, decoder consumed {c}", arm.name, seg.bytes.len()));
                    }
                }
                'k'
            } else {
                // damaged / foreign input: judge by what the offered bytes denote
                match (arm.ref_dec)(plan, &offered) {
                    RefDec::Invalid(reason) => {
                        let class = if reason == TRUNCATED { "TORN-OK" } else { "LIE" };
                        rs.ctx.violate(class, format!("{} Uint<{B}>: accepted {} as {} although it is invalid ({reason})", arm.name, short(&offered), vals_str(&vals)));
                    }
                    RefDec::Value(w, n) => {
                        if w != vals && !(arm.lossy)(plan) {
                            rs.ctx.violate("LIE", format!("{} Uint<{B}>: {} denotes {} but decoded as {}", arm.name, short(&offered), vals_str(&w), vals_str(&vals)));
                        } else if let (Some(n), Some(c)) = (n, consumed) {
                            if n != c {
                                rs.ctx.violate("LIE", format!("{} Uint<{B}>: the item in {} is {n} bytes long but the decoder consumed {c}", arm.name, short(&offered)));
                            }
                        }
                    }
                    RefDec::Unknown => rs.ctx.probe("refdec-unknown"),
                }
                if arm.strict {
                    if let Some(c) = consumed {
                        let re = (arm.ref_enc)(plan, &vals);
                        if c > offered.len() || re != offered[..c] {
                            rs.ctx.violate("NONMINIMAL", format!("{} Uint<{B}>: accepted {} as {} which re-encodes to {}", arm.name, short(&offered[..c.min(offered.len())]), vals_str(&vals), short(&re)));
                        }
                    }
                }
                'K'
            }
        }
    }
}

/// Reach probes ("this rare condition was hit"): computed by the harness from the offered bytes
/// with the same predicates the code under test branches on, so no hook in /repo is needed.
fn path_probes<const B: usize>(ctx: &mut Ctx, plan: &Plan, arm: &ArmInfo, offered: &[u8]) {
    let nb = nbytes(B);
    let b0 = offered.first().copied();
    match arm.name {
        "raw-slice" | "borsh" | "ssz" | "serde-bincode" | "serde-sim" | "scale-fixed" | "postgres" | "alloy-rlp" | "fastrlp03" | "fastrlp04" | "rlp" | "der" => {
            // the whole-limb decode fast path with a partial top-limb mask (bytes.rs)
            if nb % 8 == 0 && B % 64 != 0 && nb > 0 {
                ctx.probe("width-with-whole-limb-bytes-and-partial-mask");
                if offered.len() >= nb {
                    // any window of BYTES bytes whose top bits exceed the mask, BE or LE
                    let top_be = offered[offered.len() - nb];
                    let top_le = offered[nb - 1];
                    let mask = ((1u16 << (B % 8)) - 1) as u8;
                    if B % 8 != 0 && (top_be & !mask != 0 || top_le & !mask != 0) {
                        ctx.probe("full-length-payload-with-bits-above-mask");
                    }
                }
            }
        }
        _ => {}
    }
    match arm.name {
        "alloy-rlp" | "fastrlp03" | "fastrlp04" | "rlp" => match b0 {
            Some(0x00..=0x7f) => ctx.probe("rlp-single-byte"),
            Some(0x80) => ctx.probe("rlp-empty-string"),
            Some(0x81..=0xb7) => ctx.probe("rlp-short-string"),
            Some(0xb8..=0xbf) => ctx.probe("rlp-long-string"),
            Some(0xc0..=0xf7) => ctx.probe("rlp-short-list"),
            Some(_) => ctx.probe("rlp-long-list"),
            None => ctx.probe("empty-input"),
        },
        "der" => match (b0, offered.get(1)) {
            (Some(0x02), Some(0x00..=0x7f)) => ctx.probe("der-short-length"),
            (Some(0x02), Some(0x81)) => ctx.probe("der-length-0x81"),
            (Some(0x02), Some(0x82)) => ctx.probe("der-length-0x82"),
            (Some(0x02), Some(_)) => ctx.probe("der-odd-length-form"),
            (Some(0x30), _) => ctx.probe("der-sequence"),
            (Some(_), _) => ctx.probe("der-foreign-tag"),
            (None, _) => ctx.probe("empty-input"),
        },
        "scale-compact" => match b0 {
            Some(p) => match p & 3 {
                0 => ctx.probe("compact-mode-1-byte"),
                1 => ctx.probe("compact-mode-2-byte"),
                2 => ctx.probe("compact-mode-4-byte"),
                _ => match (p >> 2) + 4 {
                    4 => ctx.probe("compact-bigint-4"),
                    8 => ctx.probe("compact-bigint-8"),
                    16 => ctx.probe("compact-bigint-16"),
                    _ => ctx.probe("compact-bigint-generic"),
                },
            },
            None => ctx.probe("empty-input"),
        },
        "postgres" => {
            ctx.probe(match arms::postgres::TYPES[plan.aux(1) as usize % arms::postgres::TYPES.len()].0 {
                "NUMERIC" => "pg-numeric",
                "BIT" | "VARBIT" => "pg-bit",
                "JSON" | "JSONB" => "pg-json",
                "CHAR" | "TEXT" | "VARCHAR" => "pg-text",
                "FLOAT4" | "FLOAT8" => "pg-float",
                "BYTEA" => "pg-bytea",
                _ => "pg-fixed-int",
            });
            if offered.is_empty() {
                ctx.probe("empty-input");
            }
        }
        _ => {
            if offered.is_empty() {
                ctx.probe("empty-input");
            }
        }
    }
}

fn apply_fault(ctx: &mut Ctx, plan: &Plan, arm: &ArmInfo, framing: Framing, segs: &mut Vec<Seg>, f: &MFault) {
    // locate a global offset in the concatenation of live segments
    let locate = |segs: &Vec<Seg>, at: usize| -> Option<(usize, usize)> {
        let mut off = 0;
        for (i, s) in segs.iter().enumerate() {
            if s.dropped {
                continue;
            }
            if at < off + s.bytes.len() {
                return Some((i, at - off));
            }
            off += s.bytes.len();
        }
        None
    };
    match f {
        MFault::Trunc { at } => {
            if let Some((i, local)) = locate(segs, *at) {
                ctx.fire("M-TRUNC");
                ctx.event("M-TRUNC", i as u64, local as u64);
                if local == 0 && framing == Framing::Stream {
                    segs[i].dropped = true;
                } else {
                    // externally framed: the torn record still arrives, possibly as an empty message
                    segs[i].bytes.truncate(local);
                }
                segs[i].damaged = true;
                for s in segs.iter_mut().skip(i + 1) {
                    s.dropped = true;
                    s.damaged = true;
                }
            }
        }
        MFault::Flip { at, bit } => {
            if let Some((i, local)) = locate(segs, *at) {
                ctx.fire("M-FLIP");
                ctx.event("M-FLIP", *at as u64, u64::from(*bit));
                segs[i].bytes[local] ^= 1 << (bit % 8);
                segs[i].damaged = true;
            }
        }
        MFault::Sub { at, byte } => {
            if let Some((i, local)) = locate(segs, *at) {
                if segs[i].bytes[local] != *byte {
                    ctx.fire("M-SUB");
                    ctx.event("M-SUB", *at as u64, u64::from(*byte));
                    segs[i].bytes[local] = *byte;
                    segs[i].damaged = true;
                }
            }
        }
        MFault::Zero { at, len } => {
            if let Some((i, local)) = locate(segs, *at) {
                let end = (local + (*len).max(1)).min(segs[i].bytes.len());
                if segs[i].bytes[local..end].iter().any(|&b| b != 0) {
                    ctx.fire("M-ZERO");
                    ctx.event("M-ZERO", *at as u64, *len as u64);
                    for b in &mut segs[i].bytes[local..end] {
                        *b = 0;
                    }
                    segs[i].damaged = true;
                }
            }
        }
        MFault::Dup { at, len } => {
            if let Some((i, local)) = locate(segs, *at) {
                ctx.fire("M-DUP");
                ctx.event("M-DUP", *at as u64, *len as u64);
                let end = (local + (*len).max(1)).min(segs[i].bytes.len());
                let dup = segs[i].bytes[local..end].to_vec();
                let tail = segs[i].bytes.split_off(end);
                segs[i].bytes.extend(dup);
                segs[i].bytes.extend(tail);
                segs[i].damaged = true;
            }
        }
        MFault::Field { at, bytes } => {
            if let Some((i, local)) = locate(segs, *at) {
                let end = (local + bytes.len()).min(segs[i].bytes.len());
                if segs[i].bytes[local..end] != bytes[..end - local] {
                    ctx.fire("M-FIELD");
                    ctx.event("M-FIELD", *at as u64, bytes.len() as u64);
                    segs[i].bytes[local..end].copy_from_slice(&bytes[..end - local]);
                    segs[i].damaged = true;
                }
            }
        }
        MFault::Tail { bytes } => {
            if bytes.is_empty() {
                return;
            }
            ctx.fire("M-TAIL");
            ctx.event_bytes("M-TAIL", bytes);
            match framing {
                Framing::Stream => segs.push(Seg { bytes: bytes.clone(), acked: false, damaged: true, dropped: false, expect: vec![], lossy: false }),
                _ => {
                    if let Some(s) = segs.iter_mut().rev().find(|s| !s.dropped) {
                        s.bytes.extend_from_slice(bytes);
                        s.damaged = true;
                    }
                }
            }
        }
        MFault::Garbage { rec, bytes, forged } => {
            if let Some(s) = segs.get_mut(*rec) {
                if !s.dropped && s.bytes != *bytes {
                    ctx.fire(if *forged { "M-FORGE" } else { "M-GARBAGE" });
                    ctx.event_bytes("M-GARBAGE", bytes);
                    s.bytes = bytes.clone();
                    s.damaged = true;
                }
            }
        }
        MFault::Pad0 { rec } => {
            if let Some(s) = segs.get_mut(*rec) {
                if !s.dropped && s.acked {
                    if let Some(nb) = (arm.pad0)(plan, &s.bytes) {
                        ctx.fire("M-PAD0");
                        ctx.event_bytes("M-PAD0", &nb);
                        s.bytes = nb;
                        s.damaged = true;
                    }
                }
            }
        }
    }
}

// ===================================================================== text arm

fn run_text<const B: usize, const L: usize>(ctx: &mut Ctx, plan: &Plan) {
    use ruint::{Bits, Uint};
    use std::str::FromStr;
    for n in &plan.notes {
        // generator-time text faults (T-*) count as fired once the damaged text reaches the parser
        ctx.fire(leak_label(n));
    }
    let text = String::from_utf8_lossy(&plan.text).into_owned();
    ctx.event_bytes("TEXT", text.as_bytes());
    let (den, res): (TextDen, Guarded<Result<Uint<B, L>, String>>) = match plan.codec.as_str() {
        "from_str" => (reftext::from_str(B, &text), guard(|| Uint::<B, L>::from_str(&text).map_err(|e| e.to_string()))),
        "bits_from_str" => (
            reftext::from_str(B, &text),
            guard(|| Bits::<B, L>::from_str(&text).map(Bits::into_inner).map_err(|e| format!("{e:?}"))),
        ),
        "from_str_radix" => {
            let radix = plan.aux(0);
            (reftext::from_str_radix(B, &text, radix), guard(|| Uint::<B, L>::from_str_radix(&text, radix).map_err(|e| e.to_string())))
        }
        "from_base_be" | "from_base_le" => {
            let base = plan.aux(0);
            let digits: Vec<u64> = plan.aux.iter().skip(1).copied().collect();
            let be = plan.codec == "from_base_be";
            let den = ref_digits(B, base, &digits, be);
            let budget = digits.len() + 2;
            let mut calls = 0usize;
            let mut it = digits.iter().copied();
            let mut done = false;
            let iter = std::iter::from_fn(|| {
                calls += 1;
                if calls > budget {
                    std::panic::panic_any(crate::ctx::StepsExceeded(calls));
                }
                if done {
                    return None; // fused
                }
                let d = it.next();
                done = d.is_none();
                d
            });
            let res = guard(|| {
                if be {
                    Uint::<B, L>::from_base_be(base, iter).map_err(|e| e.to_string())
                } else {
                    Uint::<B, L>::from_base_le(base, iter).map_err(|e| e.to_string())
                }
            });
            ctx.seam_events += calls as u64;
            (den, res)
        }
        other => {
            ctx.violate("HARNESS", format!("unknown text codec {other}"));
            return;
        }
    };
    let shown: String = text.chars().take(80).collect();
    match res {
        Guarded::Panic(msg) => {
            ctx.violate("PANIC", format!("{} Uint<{B}>: {msg} || text={shown:?} aux={:?}", plan.codec, &plan.aux[..plan.aux.len().min(6)]));
            ctx.outcome = "p".into();
        }
        Guarded::Steps(n) => {
            ctx.violate("STEPS", format!("{} Uint<{B}>: pulled {n} items from a {}-digit iterator", plan.codec, plan.aux.len().saturating_sub(1)));
            ctx.outcome = "s".into();
        }
        Guarded::EntropyFailed => unreachable!(),
        Guarded::Ok(Err(_)) => {
            ctx.outcome = match den {
                TextDen::Value(_) => "e-valid",
                TextDen::Invalid(_) => "e-invalid",
                TextDen::Unknown => "e-unknown",
            }
            .into();
        }
        Guarded::Ok(Ok(u)) => {
            let n = ctx.observe(&plan.codec, &u);
            match den {
                TextDen::Invalid(reason) => ctx.violate("LIE", format!("{} Uint<{B}>: accepted an invalid input ({reason}) as 0x{} || text={shown:?} aux={:?}", plan.codec, num::hex(&n), &plan.aux[..plan.aux.len().min(6)])),
                TextDen::Value(w) if w != n => ctx.violate("LIE", format!("{} Uint<{B}>: input denotes 0x{} but parsed as 0x{} || text={shown:?} aux={:?}", plan.codec, num::hex(&w), num::hex(&n), &plan.aux[..plan.aux.len().min(6)])),
                TextDen::Value(_) => {}
                TextDen::Unknown => ctx.probe("refdec-unknown"),
            }
            ctx.outcome = "k".into();
        }
    }
}

fn ref_digits(bits: usize, base: u64, digits: &[u64], be: bool) -> TextDen {
    use num_bigint::BigUint;
    if base < 2 {
        return TextDen::Invalid("base < 2");
    }
    if digits.iter().any(|&d| d >= base) {
        return TextDen::Invalid("digit >= base");
    }
    let limit = BigUint::from(1u8) << bits;
    let mut acc = BigUint::from(0u8);
    let ordered: Vec<u64> = if be { digits.to_vec() } else { digits.iter().rev().copied().collect() };
    for d in ordered {
        acc = acc * base + d;
        if acc >= limit {
            return TextDen::Invalid("value >= 2^BITS");
        }
    }
    TextDen::Value(num::from_biguint(&acc))
}

/// Fault labels are `&'static str` in counters; plan notes are owned strings from a fixed set.
pub fn leak_label(s: &str) -> &'static str {
    const KNOWN: &[&str] = &[
        "T-TRUNC", "T-SUB", "T-INS", "T-MULTIBYTE", "T-WIDECHAR", "T-UNDERSCORE", "T-CASE", "T-PREFIX", "T-RADIX", "T-DIGIT", "T-OVER",
        "T-NONE", "G-DROP", "G-CORRUPT", "G-APPEND", "G-OVER", "G-BASE", "G-NONE", "E-STREAM", "E-DRY", "E-FAIL", "E-SEED",
        "E-WALK", "S-FLAG", "S-ALIEN", "S-ERR", "S-FORM", "P-SKEW", "N-NEG",
    ];
    KNOWN.iter().find(|k| **k == s).copied().unwrap_or("NOTE-OTHER")
}

// ===================================================================== entropy arm

fn run_entropy<const B: usize, const L: usize>(ctx: &mut Ctx, plan: &Plan) {
    crate::entropy::run::<B, L>(ctx, plan);
}

fn run_history<const B: usize, const L: usize>(ctx: &mut Ctx, plan: &Plan) {
    crate::history::run::<B, L>(ctx, plan);
}
