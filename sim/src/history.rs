//! `history` arm (C04): the "histories" part of C04's quantifier. Values enter through a decoder
//! seam (`try_from_be_slice` on the record bytes), then a seeded client program applies a short
//! sequence of safe public operations to them; after EVERY step each resulting `Uint` is checked
//! for the canonical-limb invariant and for ==/Hash/cmp/min/max agreement with the integers
//! (`Ctx::observe`). Only those two oracles apply: whether an operation computes the right
//! number is the business of other (not applicable) properties and is NOT judged here, so no
//! arithmetic model is needed and none can be wrong. Panics of operations are ignored (division
//! by zero etc. are documented panics; a panic produces no value). This arm has no fault
//! dimension of its own; it exists because C04's invariant is a state invariant that must
//! survive every step of a run.
//!
//! plan.aux = [op, sel_a, sel_b, k] * steps.

use crate::ctx::{guard, Ctx, Guarded};
use crate::num;
use crate::plan::Plan;
use ruint::Uint;
use std::str::FromStr;

pub const NOPS: u64 = 99;
/// operations that are expensive on very wide types (skipped above 1024 bits)
fn heavy(op: u64) -> bool {
    matches!(op, 40..=52)
}

fn inv64(m0: u64) -> u64 {
    // -(m0^-1) mod 2^64 for odd m0 (Newton)
    let mut x = m0;
    for _ in 0..6 {
        x = x.wrapping_mul(2u64.wrapping_sub(m0.wrapping_mul(x)));
    }
    x.wrapping_neg()
}

/// Apply operation `op`; returns every `Uint` it produced and a label.
#[allow(clippy::too_many_lines)]
fn apply<const B: usize, const L: usize>(op: u64, a: Uint<B, L>, b: Uint<B, L>, k: u64) -> (&'static str, Vec<Uint<B, L>>) {
    // amounts and exponents are NOT confined to the "sensible" domain: out-of-range arguments must
    // still yield canonical values (or panic, which yields none)
    let sh = if k % 13 == 0 {
        usize::MAX - (k % 3) as usize
    } else if k % 13 == 1 {
        (k >> 4) as usize
    } else {
        (k % (2 * B as u64 + 3)) as usize
    };
    let small: Uint<B, L> = if k % 11 == 0 && B <= 256 { b } else { Uint::wrapping_from(k % 70) };
    let o = |x: Option<Uint<B, L>>| x.into_iter().collect::<Vec<_>>();
    match op {
        0 => ("wrapping_add", vec![a.wrapping_add(b)]),
        1 => ("wrapping_sub", vec![a.wrapping_sub(b)]),
        2 => ("wrapping_mul", vec![a.wrapping_mul(b)]),
        3 => ("wrapping_neg", vec![a.wrapping_neg()]),
        4 => ("overflowing_add", vec![a.overflowing_add(b).0]),
        5 => ("overflowing_sub", vec![a.overflowing_sub(b).0]),
        6 => ("overflowing_mul", vec![a.overflowing_mul(b).0]),
        7 => ("overflowing_neg", vec![a.overflowing_neg().0]),
        8 => ("saturating_add", vec![a.saturating_add(b)]),
        9 => ("saturating_sub", vec![a.saturating_sub(b)]),
        10 => ("saturating_mul", vec![a.saturating_mul(b)]),
        11 => ("checked_add", o(a.checked_add(b))),
        12 => ("checked_sub", o(a.checked_sub(b))),
        13 => ("checked_mul", o(a.checked_mul(b))),
        14 => ("checked_neg", o(a.checked_neg())),
        15 => ("abs_diff", vec![a.abs_diff(b)]),
        16 => ("inv_ring", o(a.inv_ring())),
        17 => ("inv_ring(odd)", o((a | Uint::wrapping_from(1u64)).inv_ring())),
        18 => ("checked_div", o(a.checked_div(b))),
        19 => ("checked_rem", o(a.checked_rem(b))),
        20 => ("div_rem", {
            let (q, r) = a.div_rem(b);
            vec![q, r]
        }),
        21 => ("div_ceil", vec![a.div_ceil(b)]),
        22 => ("wrapping_div", vec![a.wrapping_div(b)]),
        23 => ("wrapping_rem", vec![a.wrapping_rem(b)]),
        24 => ("not", vec![!a]),
        25 => ("bitand", vec![a & b]),
        26 => ("bitor", vec![a | b]),
        27 => ("bitxor", vec![a ^ b]),
        28 => ("reverse_bits", vec![a.reverse_bits()]),
        29 => ("shl", vec![a << sh]),
        30 => ("shr", vec![a >> sh]),
        31 => ("wrapping_shl", vec![a.wrapping_shl(sh)]),
        32 => ("wrapping_shr", vec![a.wrapping_shr(sh)]),
        33 => ("overflowing_shl", vec![a.overflowing_shl(sh).0]),
        34 => ("overflowing_shr", vec![a.overflowing_shr(sh).0]),
        35 => ("checked_shl", o(a.checked_shl(sh))),
        36 => ("checked_shr", o(a.checked_shr(sh))),
        37 => ("saturating_shl", vec![a.saturating_shl(sh)]),
        38 => ("arithmetic_shr", vec![a.arithmetic_shr(sh)]),
        39 => ("rotate", vec![a.rotate_left(sh), a.rotate_right(sh)]),
        40 => ("wrapping_pow", vec![a.wrapping_pow(small)]),
        41 => ("overflowing_pow", vec![a.overflowing_pow(small).0]),
        42 => ("saturating_pow", vec![a.saturating_pow(small)]),
        43 => ("checked_pow", o(a.checked_pow(small))),
        44 => ("root", vec![a.root((k % 8) as usize)]),
        45 => ("gcd", vec![a.gcd(b)]),
        46 => ("lcm", o(a.lcm(b))),
        47 => ("gcd_extended", {
            let (g, x, y, _) = a.gcd_extended(b);
            vec![g, x, y]
        }),
        48 => ("add_mod", vec![a.add_mod(b, small.wrapping_add(b))]),
        49 => ("mul_mod", vec![a.mul_mod(b, small.wrapping_add(a))]),
        50 => ("pow_mod", vec![a.pow_mod(small, b)]),
        51 => ("inv_mod", o(a.inv_mod(b))),
        52 => ("mul_redc", {
            // proper preconditions: odd modulus, operands reduced, inv = -m^-1 mod 2^64
            let m = b | Uint::wrapping_from(1u64);
            if L == 0 {
                vec![]
            } else {
                let inv = inv64(m.as_limbs()[0]);
                let (x, y) = (a.reduce_mod(m), small.reduce_mod(m));
                vec![x.mul_redc(y, m, inv), x.square_redc(m, inv)]
            }
        }),
        53 => ("reduce_mod", vec![a.reduce_mod(b)]),
        54 => ("next_power_of_two", o(a.checked_next_power_of_two())),
        55 => ("next_multiple_of", o(a.checked_next_multiple_of(b))),
        56 => ("set_bit", {
            // any index: in range, in the padding bits of the top limb, and beyond the limbs
            // (out-of-range indices are documented to do nothing)
            let mut x = a;
            x.set_bit((k % (64 * L as u64 + 70)) as usize, k & (1 << 20) == 0);
            let mut y = a;
            y.set_bit((k >> 8) as usize % (B + 1).max(1), k & (1 << 21) != 0);
            vec![x, y]
        }),
        57 => ("wrapping_from(u64)", vec![Uint::wrapping_from(k)]),
        58 => ("saturating_from(u64)", vec![Uint::saturating_from(k)]),
        59 => ("wrapping_from(u128)", vec![Uint::wrapping_from(u128::from(k) << 64 | u128::from(!k))]),
        60 => ("saturating_from(i64)", vec![Uint::saturating_from(k as i64), Uint::wrapping_from(k as i64)]),
        61 => ("try_from(u64)", Uint::<B, L>::try_from(k).ok().into_iter().collect()),
        62 => ("wrapping_from(f64)", vec![Uint::wrapping_from(k as f64 * 1.5), Uint::saturating_from(k as f64 * 0.75)]),
        63 => ("wrapping_from(Uint<256>)", {
            let src = Uint::<256, 4>::from_limbs([k, !k, k.rotate_left(17), k ^ 0xffff_0000_ffff_0000]);
            vec![Uint::wrapping_from(src), Uint::saturating_from(src)]
        }),
        64 => ("wrapping_from(Uint<100>)", {
            let src = Uint::<100, 2>::from_limbs([!k, k & 0xf_ffff_ffff]);
            vec![Uint::wrapping_from(src), Uint::saturating_from(src)]
        }),
        65 => ("wrapping_from(Uint<64>)", vec![Uint::wrapping_from(Uint::<64, 1>::from_limbs([k])), Uint::saturating_from(Uint::<63, 1>::from_limbs([k >> 1]))]),
        66 => ("wrapping_from_limbs_slice", {
            let mut words: Vec<u64> = a.as_limbs().iter().map(|x| !x).collect();
            match k % 3 {
                0 => {
                    words.pop();
                }
                1 => words.push(k),
                _ => {}
            }
            vec![Uint::wrapping_from_limbs_slice(&words)]
        }),
        67 => ("saturating_from_limbs_slice", {
            let mut words: Vec<u64> = a.as_limbs().iter().map(|x| x | k).collect();
            if k % 2 == 1 {
                words.push(k % 3);
            }
            vec![Uint::saturating_from_limbs_slice(&words)]
        }),
        68 => ("overflowing_from_limbs_slice", {
            let mut words: Vec<u64> = a.as_limbs().iter().map(|x| x ^ k).collect();
            if k % 4 == 1 {
                words.push(0);
            }
            if k % 4 == 2 {
                words.push(1);
            }
            vec![Uint::overflowing_from_limbs_slice(&words).0]
        }),
        69 => ("checked_from_limbs_slice", {
            let words: Vec<u64> = a.as_limbs().iter().map(|x| x.rotate_left((k % 64) as u32)).collect();
            o(Uint::checked_from_limbs_slice(&words))
        }),
        70 => ("from_limbs_slice", {
            let words: Vec<u64> = b.as_limbs().iter().take((k % (L as u64 + 1)) as usize).copied().collect();
            vec![Uint::from_limbs_slice(&words)]
        }),
        71 => ("be_bytes round trip", o(Uint::try_from_be_slice(&a.to_be_bytes_vec()))),
        72 => ("le_bytes_trimmed round trip", o(Uint::try_from_le_slice(&a.to_le_bytes_trimmed_vec()))),
        73 => ("hex string round trip", Uint::from_str(&format!("{a:#x}")).ok().into_iter().collect()),
        74 => ("decimal string round trip", Uint::from_str_radix(&a.to_string(), 10).ok().into_iter().collect()),
        75 => ("base round trip", {
            let base = (k % 65000).max(2);
            let d: Vec<u64> = a.to_base_le(base).collect();
            let mut v: Vec<Uint<B, L>> = Uint::from_base_le(base, d.iter().copied()).ok().into_iter().collect();
            v.extend(Uint::from_base_be(base, d.iter().rev().copied()).ok());
            v
        }),
        76 => ("sum/product", {
            let xs = [a, b, small];
            vec![xs.iter().copied().fold(Uint::ZERO, |s: Uint<B, L>, x| s.wrapping_add(x)), xs.iter().copied().fold(small, |s, x| s.wrapping_mul(x))]
        }),
        77 => ("add_assign", {
            let mut x = a;
            x += b;
            let mut y = a;
            y -= b;
            let mut z = a;
            z *= b;
            vec![x, y, z]
        }),
        78 => ("bit assign", {
            let mut x = a;
            x &= b;
            let mut y = a;
            y |= b;
            let mut z = a;
            z ^= b;
            vec![x, y, z]
        }),
        79 => ("shift assign", {
            let mut x = a;
            x <<= sh;
            let mut y = a;
            y >>= sh;
            vec![x, y]
        }),
        80 => ("div/rem operators", if b.is_zero() { vec![] } else { vec![a / b, a % b] }),
        81 => ("constants", vec![Uint::MAX, Uint::ZERO, Uint::MIN, Uint::<B, L>::MAX.wrapping_add(a)]),
        82 => ("min/max/clamp", vec![a.min(b), a.max(b), a.clamp(a.min(b), a.max(b))]),
        83 => ("Bits round trip", {
            let bits = ruint::Bits::from(a);
            vec![(!bits).into_inner(), (bits & ruint::Bits::from(b)).into_inner(), (bits << sh).into_inner(), (bits >> sh).into_inner()]
        }),
        84 => ("Bits rotate/reverse", {
            let bits = ruint::Bits::from(a);
            vec![bits.rotate_left(sh).into_inner(), bits.rotate_right(sh).into_inner(), bits.reverse_bits().into_inner()]
        }),
        85 => ("neg operator", vec![-a]),
        86 => ("pow operator-like", vec![a.pow(Uint::wrapping_from(k % 5))]),
        87 => ("from_limbs(masked)", {
            let mut l = *a.as_limbs();
            if L > 0 {
                l[L - 1] = k & Uint::<B, L>::MASK;
            }
            vec![Uint::from_limbs(l)]
        }),
        88 => ("approx_pow2", o(Uint::<B, L>::approx_pow2((k % (B as u64 + 8)) as f64 + 0.3))),
        89 => ("try_from(u128)", Uint::<B, L>::try_from(u128::from(k) * u128::from(k)).ok().into_iter().collect()),
        90 => ("try_from(f64)", Uint::<B, L>::try_from((k % 100000) as f64 + 0.5).ok().into_iter().collect()),
        93 => ("by-reference operators", vec![&a + &b, &a - &b, &a * &b, a + &b, &a - b, a * &b, &a & &b, &a | &b, &a ^ &b, !&a, -&a]),
        94 => ("div/rem assign and by-reference", {
            if b.is_zero() {
                vec![]
            } else {
                let mut x = a;
                x /= b;
                let mut y = a;
                y %= b;
                let mut z = a;
                z /= &b;
                vec![x, y, z, &a / &b, &a % &b]
            }
        }),
        95 => ("Sum / Product traits", {
            let xs = [a, b, small];
            vec![xs.iter().sum(), xs.iter().product(), xs.into_iter().sum(), xs.into_iter().product()]
        }),
        96 => ("shift by Uint / by reference / other integer types", {
            let amt: Uint<B, L> = Uint::wrapping_from(sh as u64);
            let mut x = a;
            x <<= amt;
            let mut y = a;
            y >>= amt;
            let mut z = a;
            z <<= sh as u32 as usize;
            vec![a << amt, a >> amt, a << &amt, a >> &amt, a << &sh, a >> &sh, a << (sh as u8), a >> (sh as u16), a << (sh as u32), a >> (sh as u64), x, y, z]
        }),
        97 => ("by-reference assign operators", {
            let mut x = a;
            x += &b;
            let mut y = a;
            y -= &b;
            let mut z = a;
            z *= &b;
            let mut w = a;
            w &= &b;
            w |= &small;
            w ^= &a;
            vec![x, y, z, w]
        }),
        98 => ("Bits assign operators", {
            let mut x = ruint::Bits::from(a);
            x &= ruint::Bits::from(b);
            let mut y = ruint::Bits::from(a);
            y |= ruint::Bits::from(b);
            let mut z = ruint::Bits::from(a);
            z ^= ruint::Bits::from(b);
            let mut w = ruint::Bits::from(a);
            w <<= sh;
            let mut v = ruint::Bits::from(a);
            v >>= sh;
            vec![x.into_inner(), y.into_inner(), z.into_inner(), w.into_inner(), v.into_inner()]
        }),
        91 => ("from_be_slice / from_le_slice (raw bytes)", {
            // possibly out-of-range bytes: the panicking constructors must panic or return a canonical value
            let mut bytes = (!a).to_be_bytes_vec();
            if let Some(first) = bytes.first_mut() {
                *first |= k as u8;
            }
            let le: Vec<u8> = bytes.iter().rev().copied().collect();
            let mut v = vec![];
            v.extend(Uint::<B, L>::try_from_le_slice(&le));
            v.push(Uint::from_be_slice(&bytes));
            v.push(Uint::from_le_slice(&le));
            v
        }),
        // constructors documented to reject out-of-range limbs: whatever they return must be canonical
        // (a panic is the documented rejection and yields no value)
        _ => ("from_limbs(raw top limb)", {
            let mut l = *a.as_limbs();
            if L > 0 {
                l[L - 1] = k;
            }
            let mut v = vec![Uint::from_limbs(l)];
            v.extend(Uint::checked_from_limbs_slice(&l));
            v
        }),
    }
}

pub fn run<const B: usize, const L: usize>(ctx: &mut Ctx, plan: &Plan) {
    // values enter through the byte-slice decoder
    let mut values: Vec<Uint<B, L>> = vec![];
    for (i, r) in plan.records.iter().enumerate() {
        if !num::fits(r, B) {
            ctx.violate("HARNESS", "history: record does not fit the width");
            return;
        }
        ctx.seam("H-DECODE", i as u64, r.len() as u64);
        match guard(|| Uint::<B, L>::try_from_be_slice(r)) {
            Guarded::Ok(Some(u)) => {
                ctx.observe("try_from_be_slice", &u);
                values.push(u);
            }
            _ => values.push(num::to_uint(r)),
        }
    }
    if values.is_empty() {
        values.push(Uint::ZERO);
    }
    let mut produced = 0u32;
    for (s, step) in plan.aux.chunks(4).enumerate() {
        if step.len() < 4 {
            break;
        }
        let (op, sa, sb, k) = (step[0] % NOPS, step[1] as usize, step[2] as usize, step[3]);
        if heavy(op) && B > 1024 {
            continue;
        }
        let a = values[sa % values.len()];
        let b = values[sb % values.len()];
        ctx.event("H-OP", op, k);
        match guard(|| apply::<B, L>(op, a, b, k)) {
            Guarded::Ok((name, outs)) => {
                for u in outs {
                    ctx.observe(name, &u);
                    produced += 1;
                    if values.len() < 6 {
                        values.push(u);
                    } else {
                        let i = (s + produced as usize) % values.len();
                        values[i] = u;
                    }
                }
            }
            // a panic yields no value: not a statement about canonical values
            Guarded::Panic(_) => ctx.probe("operation-panicked"),
            _ => {}
        }
    }
    ctx.outcome = format!("h{}", produced.min(9));
}
