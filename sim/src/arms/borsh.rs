//! borsh: fixed-width little-endian through `borsh::io::{Read,Write}` (== std::io).
//! flavours: 0 Uint stream, 1 Bits stream, 2 Uint message (`to_vec` / `from_slice`),
//! 3 `Vec<Uint>` container through one reader/writer.

use super::*;
use crate::num::{self, nbytes};
use ::borsh::{BorshDeserialize, BorshSerialize};
use ruint::{Bits, Uint};

pub const FLAVOURS: u32 = 4;
pub const STRICT: bool = false;
pub use super::never_refuse as may_refuse;
pub use super::no as lossy;
pub use super::has_seam as seamless_flavour;
pub const SEAMLESS: bool = false;

pub fn supports(bits: usize, flavour: u32) -> bool {
    // borsh refuses vectors of zero-sized types (its own rule, not ruint's)
    !(flavour == 3 && bits == 0)
}
pub fn framing(p: &Plan) -> Framing {
    match p.flavour {
        2 => Framing::Message,
        3 => Framing::Container,
        _ => Framing::Stream,
    }
}
pub fn io_writer(p: &Plan) -> bool {
    p.flavour != 2
}
pub fn writer_fallible(p: &Plan) -> bool {
    p.flavour != 2
}
pub fn io_reader(p: &Plan) -> bool {
    p.flavour != 2
}
pub use super::no as scale_input;
pub use super::no_pad0 as pad0;

pub fn ref_enc(p: &Plan, vals: &[Num]) -> Vec<u8> {
    let nb = nbytes(p.bits);
    let mut out = vec![];
    if p.flavour == 3 {
        out.extend_from_slice(&(vals.len() as u32).to_le_bytes());
    }
    for v in vals {
        out.extend_from_slice(&num::le_padded(v, nb));
    }
    out
}

fn item(bits: usize, bytes: &[u8]) -> Result<Num, &'static str> {
    let v = num::from_le(bytes);
    if num::fits(&v, bits) {
        Ok(v)
    } else {
        Err("value >= 2^BITS")
    }
}

pub fn ref_dec(p: &Plan, offered: &[u8]) -> RefDec {
    let nb = nbytes(p.bits);
    match p.flavour {
        3 => {
            if offered.len() < 4 {
                return RefDec::Invalid(TRUNCATED);
            }
            let count = u32::from_le_bytes(offered[..4].try_into().unwrap()) as usize;
            let Some(need) = count.checked_mul(nb) else { return RefDec::Invalid(TRUNCATED) };
            if offered.len() - 4 < need {
                return RefDec::Invalid(TRUNCATED);
            }
            let mut vals = vec![];
            for i in 0..count {
                match item(p.bits, &offered[4 + i * nb..4 + (i + 1) * nb]) {
                    Ok(v) => vals.push(v),
                    Err(e) => return RefDec::Invalid(e),
                }
            }
            RefDec::Value(vals, Some(4 + need))
        }
        f => {
            if offered.len() < nb {
                return RefDec::Invalid(TRUNCATED);
            }
            if f == 2 && offered.len() > nb {
                // borsh::from_slice itself rejects unread bytes; not ruint's decision
                return RefDec::Unknown;
            }
            match item(p.bits, &offered[..nb]) {
                Ok(v) => RefDec::Value(vec![v], Some(nb)),
                Err(e) => RefDec::Invalid(e),
            }
        }
    }
}

pub fn encode<const B: usize, const L: usize>(ws: &mut WriteSeam, p: &Plan, vals: &[Num]) -> EncResult {
    // same format as borsh's own u64 / u128 where the widths coincide
    if B == 64 || B == 128 {
        for v in vals {
            let x = num::to_u128(v).unwrap();
            let prim = if B == 64 { ::borsh::to_vec(&(x as u64)) } else { ::borsh::to_vec(&x) }.map_err(|e| e.to_string())?;
            if prim != num::le_padded(v, nbytes(B)) {
                ws.ctx.violate("HARNESS", "reference borsh encoding disagrees with borsh's own u64/u128");
            }
        }
    }
    match p.flavour {
        0 => {
            let u: Uint<B, L> = num::to_uint(&vals[0]);
            u.serialize(ws).map_err(|e| e.to_string())
        }
        1 => {
            let u: Uint<B, L> = num::to_uint(&vals[0]);
            Bits::from(u).serialize(ws).map_err(|e| e.to_string())
        }
        2 => {
            let u: Uint<B, L> = num::to_uint(&vals[0]);
            let v = ::borsh::to_vec(&u).map_err(|e| e.to_string())?;
            ws.append(&v);
            Ok(())
        }
        _ => {
            let us: Vec<Uint<B, L>> = vals.iter().map(num::to_uint).collect();
            us.serialize(ws).map_err(|e| e.to_string())
        }
    }
}

pub fn decode<const B: usize, const L: usize>(rs: &mut ReadSeam, p: &Plan) -> DecResult {
    let pos0 = rs.pos;
    match p.flavour {
        0 => {
            let u = Uint::<B, L>::deserialize_reader(rs).map_err(|e| e.to_string())?;
            let n = rs.ctx.observe("borsh decode", &u);
            Ok((vec![n], Some(rs.pos - pos0)))
        }
        1 => {
            let b = Bits::<B, L>::deserialize_reader(rs).map_err(|e| e.to_string())?;
            let n = rs.ctx.observe("borsh Bits decode", b.as_uint());
            Ok((vec![n], Some(rs.pos - pos0)))
        }
        2 => {
            rs.note_cut_for_slice();
            let s = rs.rest();
            let u = ::borsh::from_slice::<Uint<B, L>>(s).map_err(|e| e.to_string())?;
            rs.advance(s.len());
            let n = rs.ctx.observe("borsh from_slice", &u);
            Ok((vec![n], Some(s.len())))
        }
        _ => {
            let us = Vec::<Uint<B, L>>::deserialize_reader(rs).map_err(|e| e.to_string())?;
            let ns = us.iter().map(|u| rs.ctx.observe("borsh Vec item", u)).collect();
            Ok((ns, Some(rs.pos - pos0)))
        }
    }
}
