//! Minimisation of a violating plan (delta debugging on the explicit trace) and violation keys.

use crate::ctx::Violation;
use crate::engine::run_plan;
use crate::num;
use crate::plan::{MFault, Plan};
use crate::widths::width_class;

/// Stable skeleton of a violation detail: everything after " || " is free-form and ignored;
/// in the rest every token that looks like a value (decimal, 0x.., hex dump) becomes '#', so that
/// the same defect at another value, width or line number yields the same skeleton.
pub fn skeleton(detail: &str) -> String {
    let stable = detail.split(" || ").next().unwrap_or("");
    let mut out = String::with_capacity(stable.len());
    let mut tok = String::new();
    let flush = |tok: &mut String, out: &mut String| {
        if tok.is_empty() {
            return;
        }
        let all_hex = tok.chars().all(|c| c.is_ascii_hexdigit());
        let has_digit = tok.chars().any(|c| c.is_ascii_digit());
        let valueish = tok.starts_with("0x") || (all_hex && (has_digit || tok.len() >= 6));
        if valueish {
            out.push('#');
        } else {
            out.push_str(tok);
        }
        tok.clear();
    };
    let mut in_value = false;
    for c in stable.chars() {
        // anything between the value brackets is a value
        if c == '\u{27e6}' {
            flush(&mut tok, &mut out);
            in_value = true;
            out.push('#');
            continue;
        }
        if in_value {
            in_value = c != '\u{27e7}';
            continue;
        }
        if c.is_ascii_alphanumeric() || c == '_' {
            tok.push(c);
        } else {
            flush(&mut tok, &mut out);
            out.push(c);
        }
    }
    flush(&mut tok, &mut out);
    out
}

#[derive(Clone, Debug, PartialEq, Eq, PartialOrd, Ord)]
pub struct Key {
    pub class: String,
    pub arm: String,
    pub codec: String,
    pub width_class: u8,
    pub skeleton: String,
}

pub fn key_of(plan: &Plan, v: &Violation) -> Key {
    let sk = skeleton(&v.detail);
    Key { class: v.class.to_string(), arm: plan.arm.clone(), codec: plan.codec.clone(), width_class: width_class(plan.bits), skeleton: sk.chars().take(240).collect() }
}

pub fn reproduces(plan: &Plan, key: &Key) -> Option<Violation> {
    let rep = run_plan(plan, false);
    rep.violations.into_iter().find(|v| &key_of(plan, v) == key)
}

/// Same class (and codec, width class) but possibly different wording — used while shrinking so
/// that e.g. a shorter offered slice in the message does not stop minimisation.
fn same_class(plan: &Plan, key: &Key) -> bool {
    let rep = run_plan(plan, false);
    rep.violations.iter().any(|v| {
        let k = key_of(plan, v);
        k.class == key.class && k.codec == key.codec && k.width_class == key.width_class && panic_site(&k.skeleton) == panic_site(&key.skeleton)
    })
}

/// What must stay the same while shrinking, besides class / codec / width class: the panic
/// message and file, or the parenthesised reason of the verdict.
fn panic_site(sk: &str) -> String {
    if let Some(i) = sk.find(" @ ") {
        let start = sk[..i].rfind(": ").map_or(0, |j| j + 2);
        return sk[start..].to_string();
    }
    match (sk.rfind('('), sk.rfind(')')) {
        (Some(a), Some(b)) if a < b => sk[a..=b].to_string(),
        _ => String::new(),
    }
}

/// Replace the fault list by the medium it produced: every damaged record becomes an explicit
/// `M-GARBAGE` with the bytes the consumer actually saw. The trace then no longer depends on the
/// record values, and the bytes themselves can be shrunk.
fn materialize(p: &Plan) -> Option<Plan> {
    use crate::plan::MFault;
    if p.arm != "pipeline" || p.medium.is_empty() || p.write.err_at.is_some() {
        return None;
    }
    if p.medium.iter().all(|f| matches!(f, MFault::Garbage { .. })) || p.medium.iter().any(|f| matches!(f, MFault::Tail { .. })) {
        return None;
    }
    let (_, segs) = crate::engine::run_plan_collect(p);
    if segs.is_empty() || segs.iter().any(|s| s.2) {
        return None;
    }
    let mut q = p.clone();
    q.medium = segs
        .iter()
        .enumerate()
        .filter(|(_, s)| s.1)
        .map(|(i, s)| MFault::Garbage { rec: i, bytes: s.0.clone(), forged: false })
        .collect();
    Some(q)
}

pub fn shrink(plan: &Plan, key: &Key, budget: usize) -> Plan {
    let first = shrink_pass(plan, key, budget);
    match materialize(&first) {
        Some(m) if same_class(&m, key) => shrink_pass(&m, key, budget),
        _ => first,
    }
}

fn shrink_pass(plan: &Plan, key: &Key, budget: usize) -> Plan {
    let mut best = plan.clone();
    let mut spent = 0usize;
    let mut progress = true;
    while progress && spent < budget {
        progress = false;
        for cand in candidates(&best) {
            if spent >= budget {
                break;
            }
            if cand == best {
                continue;
            }
            spent += 1;
            if same_class(&cand, key) {
                best = cand;
                progress = true;
                break;
            }
        }
    }
    best
}

fn simpler_values(v: &Vec<u8>) -> Vec<Vec<u8>> {
    let mut out = vec![];
    let v = &num::trim_be(v);
    if v.is_empty() {
        return out;
    }
    out.push(vec![]);
    out.push(vec![1]);
    // keep only the top bit
    let bl = num::bit_len(v);
    out.push(num::pow2(bl - 1));
    // keep the top byte, zero the rest
    let mut t = vec![0u8; v.len()];
    t[0] = v[0];
    out.push(t);
    // drop the low half
    if v.len() > 1 {
        let mut h = v.clone();
        let n = h.len();
        for b in &mut h[n / 2..] {
            *b = 0;
        }
        out.push(h);
        // shorter number
        out.push(v[..v.len() / 2].to_vec());
        out.push(num::trim_be(&v[1..]));
    }
    out.retain(|x| x != v);
    out
}

fn candidates(p: &Plan) -> Vec<Plan> {
    let mut out = vec![];
    let mut push = |f: &dyn Fn(&mut Plan)| {
        let mut c = p.clone();
        f(&mut c);
        out.push(c);
    };
    // fewer records
    if p.records.len() > 1 {
        for i in 0..p.records.len() {
            push(&|c| {
                c.records.remove(i);
            });
        }
    }
    // fewer faults
    for i in 0..p.medium.len() {
        push(&|c| {
            c.medium.remove(i);
        });
    }
    if p.read.cut.is_some() {
        push(&|c| c.read.cut = None);
    }
    if p.write.err_at.is_some() {
        push(&|c| c.write.err_at = None);
    }
    if !p.write.chunks.is_empty() {
        push(&|c| c.write.chunks.clear());
    }
    if !p.write.eintr.is_empty() {
        push(&|c| c.write.eintr.clear());
    }
    if !p.write.prefill.is_empty() {
        push(&|c| c.write.prefill.clear());
    }
    if !p.read.chunks.is_empty() {
        push(&|c| c.read.chunks.clear());
    }
    if !p.read.eintr.is_empty() {
        push(&|c| c.read.eintr.clear());
    }
    if p.read.remaining_len != 0 {
        push(&|c| c.read.remaining_len = 0);
    }
    if p.read.alloc_budget.is_some() {
        push(&|c| c.read.alloc_budget = None);
    }
    if p.arm == "pipeline" && p.codec == "serde-sim" {
        for i in 0..p.aux.len() {
            if p.aux[i] != 0 {
                push(&|c| c.aux[i] = 0);
            }
        }
    }
    if p.arm == "pipeline" && p.codec == "postgres" && p.aux(0) != p.aux(1) {
        push(&|c| c.aux[0] = c.aux[1]);
    }
    // simpler values
    for i in 0..p.records.len() {
        for v in simpler_values(&p.records[i]) {
            push(&|c| c.records[i] = v.clone());
        }
    }
    // fault positions toward zero, simpler fault payloads
    for i in 0..p.medium.len() {
        match &p.medium[i] {
            MFault::Trunc { at } | MFault::Flip { at, .. } | MFault::Sub { at, .. } | MFault::Zero { at, .. } | MFault::Dup { at, .. } | MFault::Field { at, .. } if *at > 0 => {
                for na in [0, at / 2, at - 1] {
                    push(&|c| match &mut c.medium[i] {
                        MFault::Trunc { at } | MFault::Flip { at, .. } | MFault::Sub { at, .. } | MFault::Zero { at, .. } | MFault::Dup { at, .. } | MFault::Field { at, .. } => *at = na,
                        _ => {}
                    });
                }
            }
            MFault::Garbage { bytes, .. } if !bytes.is_empty() && bytes.len() <= 24 => {
                // small enough to try every single-byte removal and simplification
                for k in 0..bytes.len() {
                    push(&|c| {
                        if let MFault::Garbage { bytes, .. } = &mut c.medium[i] {
                            bytes.remove(k);
                        }
                    });
                    if bytes[k] != 0 {
                        push(&|c| {
                            if let MFault::Garbage { bytes, .. } = &mut c.medium[i] {
                                bytes[k] = 0;
                            }
                        });
                    }
                }
            }
            MFault::Garbage { bytes, .. } if bytes.len() > 1 => {
                push(&|c| {
                    if let MFault::Garbage { bytes, .. } = &mut c.medium[i] {
                        bytes.truncate(bytes.len() / 2);
                    }
                });
                push(&|c| {
                    if let MFault::Garbage { bytes, .. } = &mut c.medium[i] {
                        bytes.pop();
                    }
                });
                push(&|c| {
                    if let MFault::Garbage { bytes, .. } = &mut c.medium[i] {
                        let n = bytes.len();
                        for b in &mut bytes[n / 2..] {
                            *b = 0;
                        }
                    }
                });
            }
            MFault::Tail { bytes } if bytes.len() > 1 => {
                push(&|c| {
                    if let MFault::Tail { bytes } = &mut c.medium[i] {
                        bytes.truncate(bytes.len() / 2);
                    }
                });
                push(&|c| {
                    if let MFault::Tail { bytes } = &mut c.medium[i] {
                        bytes.remove(0);
                    }
                });
            }
            _ => {}
        }
        if let MFault::Zero { len, .. } | MFault::Dup { len, .. } = &p.medium[i] {
            if *len > 1 {
                push(&|c| {
                    if let MFault::Zero { len, .. } | MFault::Dup { len, .. } = &mut c.medium[i] {
                        *len = 1;
                    }
                });
            }
        }
    }
    if let Some((at, k)) = p.read.cut {
        if at > 0 {
            push(&|c| c.read.cut = Some((at / 2, k)));
            push(&|c| c.read.cut = Some((at - 1, k)));
        }
    }
    if let Some(at) = p.write.err_at {
        if at > 0 {
            push(&|c| c.write.err_at = Some(at / 2));
            push(&|c| c.write.err_at = Some(at - 1));
        }
    }
    // text arm
    if p.arm == "text" {
        let t = String::from_utf8_lossy(&p.text).into_owned();
        let chars: Vec<char> = t.chars().collect();
        if chars.len() > 1 {
            push(&|c| c.text = chars[..chars.len() / 2].iter().collect::<String>().into_bytes());
            push(&|c| c.text = chars[chars.len() / 2..].iter().collect::<String>().into_bytes());
        }
        for i in 0..chars.len().min(48) {
            push(&|c| {
                let mut v = chars.clone();
                v.remove(i);
                c.text = v.iter().collect::<String>().into_bytes();
            });
        }
        if p.aux.len() > 1 {
            for i in 1..p.aux.len().min(40) {
                push(&|c| {
                    c.aux.remove(i);
                });
            }
            for i in 1..p.aux.len().min(40) {
                if p.aux[i] > 1 {
                    push(&|c| c.aux[i] = 1);
                    push(&|c| c.aux[i] = 0);
                }
            }
        }
    }
    // history arm: drop steps, simplify scalars
    if p.arm == "history" {
        let steps = p.aux.len() / 4;
        for i in 0..steps {
            push(&|c| {
                c.aux.drain(4 * i..4 * i + 4);
            });
            if p.aux[4 * i + 3] > 1 {
                push(&|c| c.aux[4 * i + 3] = 1);
                push(&|c| c.aux[4 * i + 3] /= 2);
            }
            if p.aux[4 * i + 1] != 0 {
                push(&|c| c.aux[4 * i + 1] = 0);
            }
            if p.aux[4 * i + 2] != 0 {
                push(&|c| c.aux[4 * i + 2] = 0);
            }
        }
    }
    // entropy arm
    if p.arm == "entropy" {
        if p.entropy.stream.iter().any(|&b| b != 0xff) {
            push(&|c| c.entropy.stream = vec![0xff; c.entropy.stream.len()]);
        }
        if let Some(k) = p.entropy.fail_at {
            if k > 0 {
                push(&|c| c.entropy.fail_at = Some(k - 1));
                push(&|c| c.entropy.fail_at = Some(k / 2));
            }
        }
        if let Some(k) = p.entropy.dry_at {
            if k > 0 {
                push(&|c| c.entropy.dry_at = Some(k - 1));
            }
        }
        if !p.entropy.walk.is_empty() {
            push(&|c| c.entropy.walk.clear());
            push(&|c| {
                c.entropy.walk.pop();
            });
        }
        if !p.entropy.prior.is_empty() {
            push(&|c| c.entropy.prior.clear());
        }
    }
    out
}

#[cfg(test)]
mod tests {
    use super::*;
    #[test]
    fn skel() {
        assert_eq!(skeleton("ssz decode Uint<63> of \u{27e6}0xff00aa/3B\u{27e7}: Value too large @ repo/src/bytes.rs:257 || x 5"), "ssz decode Uint<#> of #: Value too large @ repo/src/bytes.rs:#");
    }
}
